#!/usr/bin/env bash
# tools/mutant.sh <patch.diff> <PROP> [more PROPs...] [-- extra check args]
# Applies a patch to /repo's working tree, runs the quick checks of the given properties, and undoes the patch.
# Prints one line per property: CAUGHT (exit 1 + VIOLATION), MISSED (exit 0) or ERROR (exit 2).
set -u
patch="$(realpath "$1")"; shift
props=(); extra=()
while [ $# -gt 0 ]; do
    if [ "$1" = "--" ]; then shift; extra=("$@"); break; fi
    props+=("$1"); shift
done
if ! git -C /repo diff --quiet; then echo "refusing: /repo has uncommitted changes"; exit 2; fi
if ! git -C /repo apply --check "$patch" 2>/dev/null; then echo "patch does not apply: $patch"; exit 2; fi
git -C /repo apply "$patch"
trap 'git -C /repo checkout -- . ; git -C /repo clean -fdq -- ohkami ohkami_lib ohkami_macros ohkami_openapi 2>/dev/null' EXIT
for p in "${props[@]}"; do
    out=$(cd /verif && VERIF_NO_EVIDENCE=1 ./check "$p" quick "${extra[@]}" 2>&1); code=$?
    case $code in
        1) echo "CAUGHT $p: $(echo "$out" | grep -m1 '^violation:' | cut -c1-220)" ;;
        0) echo "MISSED $p: $(echo "$out" | tail -1 | cut -c1-160)" ;;
        *) echo "ERROR  $p (exit $code): $(echo "$out" | tail -3 | tr '\n' ' ' | cut -c1-300)" ;;
    esac
done
