#!/usr/bin/env python3
"""known_findings.txt = known_findings.json in the one-line form (regenerate after editing the JSON)."""
import json
kf = json.load(open('/verif/known_findings.json'))
lines = ["# generated from known_findings.json by tools/gen_findings_txt.py; the checks read the JSON file",
         "# fixed: property=<id> <commit> <what failed>   |   known: property=<id> <finding id> <what fails>"]
for k in kf:
    if k['status'] == 'fixed':
        lines.append(f"fixed: property={k['property']} {k['commit']} {k['what']} [{k['id']}, replay {k['replay']}]")
    else:
        lines.append(f"known: property={k['property']} {k['id']} {k['what']} [hazard {k['hazard']}, replay {k['replay']}]")
open('/verif/known_findings.txt', 'w').write("\n".join(lines) + "\n")
print(len(kf), 'entries')
