#!/usr/bin/env python3
"""Regenerates /verif/MANIFEST.json from the table below (keeps it valid at all times)."""
import json, subprocess

HOOK_COMMITS = [l.split()[0] for l in subprocess.check_output(
    ['git', '-C', '/repo', 'log', '--format=%H %s', '--grep=^verif hook']).decode().splitlines()]

TECH = "deterministic simulation with fault injection: seeded search over generated scenarios, schedules and faults on the real server under a simulated tokio/ctrlc, oracle = reference model"

CLAIMED = {
    # id: (design_ref, level text, level note, technique suffix)
    "C01": ("DESIGN.md 5.C01",
            "Seeded exploration: generated route sets (static/:param segments chosen to collide on byte prefixes, depth 1..4, method subsets, nested mounts with static and param prefixes) are served by the real server twice in one world (two registration orders, two listeners); 4..24 requests (hits with random param values, near misses: suffix/prefix bytes, extra/empty/missing segments, doubled and trailing slashes, percent-encoded statics, other methods, HEAD) travel over keep-alive connections so that consecutive requests of different shapes share one Request object; each outcome (handler id, captured params, 404) is compared with a segment-wise reference router and between the two registration orders.",
            "Trusts the reference router (DESIGN.md A.3) and the facade; <= 2 params per route; mount prefixes exclusive; where the statement can be read two ways (backtracking, method-specific trees) both are accepted and counted.",
            "reference router model on live keep-alive connections; registration-order metamorphic check"),
    "C02": ("DESIGN.md 5.C02",
            "Seeded exploration: every run sends one generated request (well-formed / unambiguously malformed / grey) as the first segment of a fresh simulated connection to the real Ohkami::howl + Session::manage; the dump a root fang produces through the public accessors is compared with an independent reference parse; panics, hangs (quiescence with a complete message delivered) and acceptance of malformed input are violations. EOF/FIN/silence are injected at every byte offset. Sampling, not proof.",
            "Trusts the facade tokio (read/read_exact/write_all semantics), the reference request model (DESIGN.md A.1) and the independent response parser; heads <= 1023 bytes for class W; whole input arrives in one read (segmentation is C06).",
            "reference request parser + refusal rules + quiescence (hang) detection"),
    "C03": ("DESIGN.md 5.C03",
            "Seeded exploration: a handler and a fang's back action interpret a generated operation script (all 44 non-framing standard setters, custom names, Set-Cookie with directives, text/html/json/raw payloads, drop_content, streams, remove-then-set cycles up to 300 long, every status class) against a Response inside the real server; the bytes a simulated client receives over a socket with short writes, tiny windows and slow reads are parsed by an independent HTTP/1.1 parser and compared with a header-map model (every live header once with its latest value, nothing removed or stale, framing by rule, Date = IMF-fixdate of the simulated clock), a second request on the same connection must be answered, and hook K4 reports any write past the reserved capacity.",
            "Trusts the independent response parser and the header-map model (DESIGN.md A.2); header values without CR/LF/NUL; no direct writes to framing headers; custom names distinct case-insensitively; 1xx/304 only without content.",
            "header-map reference model + independent wire parser + capacity probe, under injected short writes/back-pressure"),
    "C04": ("DESIGN.md 5.C04",
            "Seeded exploration: generated application trees with 0..8 traced fangs per application (hand-written Fang/FangProc and FangAction kinds, some yielding or sleeping so that sessions overlap inside a fang), 0..4 local fangs per handler and nested mounts run in the real server; every request (hits, misses inside/outside each mount, every method, Stop requests aimed at any fang) carries its own inbound/outbound trace in request context and response headers, which is compared with the onion/scope model. Several connections run concurrently under the tape-driven scheduler.",
            "Trusts the scope model (DESIGN.md A.4) and C01's router model; the property's side condition (one application per mount prefix) is enforced by the generator; routing-ambiguous requests are skipped.",
            "onion-order/scope reference model with per-request traces under interleaved sessions"),
    "C05": ("DESIGN.md 5.C05",
            "Seeded exploration, metamorphic oracle: 1..3 keep-alive connections carrying 2..12 generated requests each (bodies with NUL bytes, sizes around the 1 KiB buffer, context-setting requests, param routes, a malformed request in the middle, Connection: close at any position) run against the real session loop; response k must equal, byte for byte after masking Date, the response to the same request alone on a fresh connection in the same world, and that baseline is itself checked against the reference model. Sessions interleave under the tape-driven scheduler.",
            "Trusts the facade tokio, the response parser and the reference model; one segment per request (the property's own framing); malformed requests in the middle are < 1 KiB.",
            "metamorphic comparison against fresh-connection baseline + reference request model + leak probes"),
    "C06": ("DESIGN.md 5.C06",
            "Seeded exploration, metamorphic oracle: the same generated request sequence is delivered on a baseline connection and on 1..3 further connections under tape-chosen TCP deliveries (cuts anywhere in head and body, coalescing, pipelining, delays from 0 to seconds, short reads, different task schedules); every delivery must produce the baseline's responses and terminate. One listed known finding (pipelining, KF-C06-2) is guarded in the main pass and re-entered deliberately in a hazard pass where any unlisted signature is still a violation.",
            "Trusts the facade tokio's read semantics (arbitrary 1..n byte returns are legal for TCP), the response parser and the C02 reference model for the baseline.",
            "metamorphic comparison of deliveries of one byte stream under injected segmentation/short-read/delay faults"),
    "C07": ("DESIGN.md 5.C07",
            "Seeded exploration: a catalogue of typed handlers (one or two path params of String / &str / Cow<str> / every built-in integer width, Query, JSON, URLEncoded, Multipart, Text, Option<_> of them, combinations of a param with up to three extractors) runs in the real server; 2..10 requests per keep-alive connection (param slots and payload of the previous request are the history that could leak) carry generated inputs tagged valid / invalid / grey: digit strings with garbage, signs, leading zeros, values at +-1 of every bound and far beyond, percent-encoded and non-UTF-8 segments, valid and invalid bodies, matching / mismatching / parameterised / missing Content-Type, missing payload. If the handler ran its echo must equal the reference (Rust FromStr, serde_json, independent form decoding, the multipart encoder's inputs); if not, an error status must arrive; valid canonical inputs must be accepted; an Option extractor may be None only when the item is absent. Apart from connection reuse the simulator's dimensions are inert here (stated in DESIGN.md).",
            "Trusts Rust's FromStr and serde_json as references; non-canonical spellings and media-type case variants are grey; multipart with text fields only.",
            "reference decoders vs typed handler echoes on live keep-alive connections"),
    "C12": ("DESIGN.md 5.C12",
            "Seeded exploration with the wall clock as a fault dimension: a JWT-guarded application (HS256/384/512, generated secrets, fang at root / on a mount / local) receives 2..10 requests on a keep-alive connection (sometimes reconnecting), each with a generated token (issued by the same configuration, model-signed with arbitrary payloads/headers, every kind of mutation and forgery of the statement) while the simulated wall clock (hook K1) is set to an instant chosen around the token's exp/nbf/iat, jumping forwards and backwards between requests; an independent token model (own base64url and HMAC construction) decides admit/refuse at that instant and the echoed payload must equal the signed one.",
            "Trusts the sha2 crate's hash functions (HMAC construction and base64url are re-implemented); non-numeric time claims are open; `bearer` in another case is checked one way only.",
            "reference token model evaluated at the simulated clock; clock jump/skew injection"),
    "C13": ("DESIGN.md 5.C13",
            "Seeded exploration: a BasicAuth-guarded application (single pair or array of 1..5 pairs with Unicode, colons in passwords, empty parts, prefix-related pairs; fang at root / on a mount / local) receives 2..10 requests on a keep-alive connection with generated Authorization values (correct, mixed pairs, prefix/suffix variants, other schemes, invalid base64, base64 of non-UTF-8 bytes with the invalid byte first/middle/last, missing; a correct request followed by one without the header on the same connection); an independent credential model decides and 401 + `WWW-Authenticate: Basic` is required for every refusal. Only connection reuse is a live simulator dimension here (stated in DESIGN.md): the deciding power is seeded generation against the model on the real server.",
            "Trusts the base64 crate for the model's decoding; `basic` in another case and unpadded base64 are checked one way only.",
            "reference credential model on live keep-alive connections"),
    "C14": ("DESIGN.md 5.C14",
            "Seeded exploration: a generated CORS policy (wildcard/specific origin, credentials, allow/expose lists, max-age) guards a generated application (C01's generator: method subsets, nested mounts, routes registered in one or several pieces, erroring handlers) in the real server; 3..12 simple requests, preflights (registered/unregistered/unknown requested methods, requested headers, registered and unregistered paths) and bare OPTIONS travel over a keep-alive connection; a CORS model fed with the policy and the route table decides every header and status, and a successful preflight must have a determinable empty body. Only connection reuse is a live simulator dimension (stated in DESIGN.md).",
            "Trusts the CORS model (DESIGN.md A.5) and C01's router model; HEAD/OPTIONS as requested method and Vary are open; routing-ambiguous requests are skipped.",
            "reference CORS model over the route table on live keep-alive connections"),
    "C17": ("DESIGN.md 5.C17",
            "Seeded exploration over producer schedules: 1..3 concurrent SSE connections, each driven by a generated producer script (sends of arbitrary Unicode text incl. LF/CR/CRLF/field look-alikes/NUL/BOM, bursts before a yield, self-waking yields, timer sleeps, completion with empty or non-empty queue) through DataStream::new (QueueStream), DataStream::from(custom Stream) and Response::with_stream, read over sockets with tape-chosen windows, read sizes and pauses (back-pressure between chunks) and short writes; an independent chunked decoder and WHATWG event-stream parser must yield exactly the messages in order with no foreign field, the stream must terminate, and a follow-up request on the same connection must be answered.",
            "Trusts the independent chunked decoder and event-stream parser (DESIGN.md A.7) and the facade's timer/yield semantics.",
            "producer-schedule and back-pressure search; independent event-stream parser as oracle"),
    "C18": ("DESIGN.md 5.C18",
            "Seeded exploration of interleavings: the real Ohkami::howl runs with 0..6 clients in tape-chosen stages (connecting, mid-request, in a handler sleeping up to 20 s, idle keep-alive, half-sent request); a simulated SIGINT becomes due at a tape-chosen instant and the REAL closure ohkami gave to ctrlc::set_handler runs on a second OS thread in strict hand-off with the executor, pausing at the three scheduling points hook K2 adds inside it, while the executor decides at the three points inside UntilInterrupt::poll (first poll and later polls) how far the handler advances — every order of the six steps is reachable. Safety: howl completes only after every spawned session task finished, accepted connections are served, late connects are refused. Bounded liveness: a quiescent world with the handler finished and howl still pending is a violation (lost wake-up).",
            "All atomics of the protocol are SeqCst, so the six explicit scheduling points give every observable interleaving; trusts the hand-off thread (exactly one of the two threads is ever runnable) and the executor's spinner rule for the busy-waiting WaitGroup.",
            "interleaving search over signal-handler steps vs accept-loop steps; safety ordering + quiescence liveness"),
    "C19": ("DESIGN.md 5.C19",
            "Seeded exploration with the file system as the faulted resource: each run builds a generated directory tree on the real file system (nesting, names colliding after extension stripping, dotted directory names, all 16 supported extensions, empty/binary/UTF-8 contents, index.html at any level, files next to the directory), mounts it through Route::Dir with a generated omit-extension setting and mount route in the real server, and sends 4..20 requests (every file and directory, HEAD, `..`/`.`/percent-encoded/doubled-slash traversal variants, stripped/added extensions, outside names, names added later) while the tree is mutated after start-up (overwrite, truncate, delete, rename, add, replace by directory); a directory -> route-table model with the start-up bytes decides every answer.",
            "Trusts the directory model (DESIGN.md A.6) and the independent response parser; configurations the model rejects must panic at start-up and are discarded; no symlinks.",
            "directory reference model vs served bytes under post-start-up file-system mutation faults"),
    "C20": ("DESIGN.md 5.C20",
            "Claimed with explicit bounds. The date is a function of the clock, which the simulator owns: every request is handled at a tape-chosen simulated wall-clock instant in [0, 253402300799] (hook K1; quick: 480 k instants biased to month/year/century/leap boundaries; thorough: every day number 0..2,932,896 once at a seeded second, every second of day on 12 selected days, plus random instants) and the Date header on the wire must equal an independent civil-from-days IMF-fixdate formatter. Decimal and hexadecimal renderings are observed as Content-Length values and chunk-size lines of responses whose body / SSE message length the tape chooses (all lengths to 20,000, powers of ten and sixteen +-1; thorough up to 10^7 and 16^6), plus Content-Length of HEAD responses for eight lengths around 10^9, 2^31, 2^32 and up to 10^10 - 1 (bodies never materialised).",
            "NOT covered and not coverable by this technique: decimal renderings above 10^10 and hex renderings of values a chunk cannot have (>= 2^24). The reference date formatter is cross-checked against Python's datetime by tools/selftest.py on every run.",
            "clock-jump injection + enumerated/biased instants against a reference formatter; response sizes as the carrier of number renderings"),
}

NOT_YET = "check not built yet in this round (work in progress; see DESIGN.md section 11 build order)"
NA = {
    "C08": "pure function of a byte slice: no stream, clock, task, timer or fault takes part; the quantifier is over inputs only, which is fuzzing/property testing, not a simulation target (DESIGN.md 5.C08)",
    "C09": "pure codec round trip of ohkami_lib (inputs only; no schedule, clock, I/O or fault) (DESIGN.md 5.C08-C11)",
    "C10": "pure multipart decoder over a byte slice (inputs only; no schedule, clock, I/O or fault) (DESIGN.md 5.C08-C11)",
    "C11": "pure Cookie/Set-Cookie codecs (inputs only; no schedule, clock, I/O or fault) (DESIGN.md 5.C08-C11)",
    "C15": "the OpenAPI document is a start-up pure function of the application value: no run-time behaviour to schedule or fault; needs a JSON-Schema validator over generated programs, another technique (DESIGN.md 5.C15)",
    "C16": "derive(Schema) is expanded at compile time; the quantifier is over programs, nothing runs under a scheduler (DESIGN.md 5.C16)",
}
ALL = ["C%02d" % i for i in range(1, 21)]

checks = []
for pid in ALL:
    if pid in CLAIMED:
        ref, text, note, tech = CLAIMED[pid]
        checks.append({
            "property_id": pid,
            "quick_cmd": f"./check {pid} quick",
            "thorough_cmd": f"./check {pid} thorough",
            "evidence_file": f"/verif/evidence/{pid}.json",
            "replay_cmd_template": "./check replay {path}",
            "engine": "ohkami-sim",
            "level_claimed": {"category": "exploration", "text": text, "design_ref": ref},
            "level_note": note,
            "technique": TECH + "; " + tech,
        })
na = []
for pid in ALL:
    if pid in CLAIMED:
        continue
    na.append({"property_id": pid, "reason": NA.get(pid, NOT_YET)})

manifest = {
    "version": 1,
    "setup_cmd": "cd /verif/sim && CARGO_NET_OFFLINE=true cargo build --release --offline",
    "hooks": {
        "guard": "--cfg ohkami_verif",
        "enable": "RUSTFLAGS=--cfg ohkami_verif via /verif/sim/.cargo/config.toml; ohkami is a path dependency on /repo/ohkami, tokio and ctrlc are replaced by /verif/sim/facade/* through [patch.crates-io]",
        "baseline_off_cmd": "cd /repo && cargo test --workspace --no-fail-fast --offline --lib",
        "source_commits": HOOK_COMMITS,
        "add_only": True,
    },
    "engines": [{
        "name": "ohkami-sim",
        "path": "/verif/sim",
        "serves_properties": sorted(CLAIMED),
        "kind_free_text": "hand-written deterministic simulator: tape-driven single-thread executor, discrete-event clock, TCP-like byte transport, simulated Ctrl-C thread in strict hand-off; the unmodified Ohkami::howl / Session::manage run on it through stand-in tokio and ctrlc crates",
    }],
    "checks": checks,
    "not_applicable": na,
    "notes": "Exit codes of every check: 0 held, 1 violation (VIOLATION line + replay file), 2 harness/build error. Known findings: /verif/known_findings.json + /verif/findings/*.replay.json.",
}
json.dump(manifest, open('/verif/MANIFEST.json', 'w'), indent=1)
print("wrote MANIFEST.json:", len(checks), "checks,", len(na), "not applicable")
