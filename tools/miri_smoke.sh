#!/usr/bin/env bash
# Optional extra, not part of any verdict: a handful of simulated runs under Miri (≈1 min each) to look for
# undefined behaviour (dangling `Slice`s, out-of-bounds unchecked copies) that the capacity probe cannot see.
# usage: tools/miri_smoke.sh "C02 C03 C05 C06 C07 C17" "0 1 2"
cd /verif/sim
props=${1:-"C02 C03 C05 C06 C17"}; runs=${2:-"0 3"}
export MIRIFLAGS="-Zmiri-disable-isolation" CARGO_TARGET_DIR=/var/tmp/miri-target
for p in $props; do for r in $runs; do
    out=$(timeout 1800 cargo +nightly miri run --offline -- one $p $r 2>&1)
    if echo "$out" | grep -q "Undefined Behavior"; then echo "MIRI-UB $p run $r"; echo "$out" | grep -A 12 "Undefined Behavior" | head -30
    elif echo "$out" | grep -q '"verdict"'; then echo "miri ok $p run $r: $(echo "$out" | grep -A1 '"verdict"' | tr -d ' \n' | cut -c1-80)"
    else echo "miri ?? $p run $r: $(echo "$out" | tail -3 | tr '\n' ' ' | cut -c1-200)"; fi
done; done
