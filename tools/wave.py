#!/usr/bin/env python3
"""tools/wave.py — bookkeeping for a wave of independently written property-breaking changes.

  wave.py setup <wave> <PROP>...   scratch worktrees /tmp/mut/<PROP> at /repo's HEAD + prompt files
                                   /tmp/mut/prompts/<PROP>.w<wave>.txt (property text, rules, one line per
                                   earlier idea so that the author looks elsewhere; NOTHING from /verif's checks)
  wave.py store <n> <PROP>...      /tmp/mut/<PROP>/MUTANT -> /verif/seeded/<PROP>-<n> (patch.diff, demo without
                                   build output, meta.json skeleton to be completed by hand)
  wave.py clean <PROP>...          remove the scratch worktrees and their build output
"""
import json, os, shutil, subprocess, sys, glob, re

ROOT = "/tmp/mut"
HINTS = {
    14: "Look where earlier authors did not: behaviour that depends on a second or third use of an object, on an "
        "order of builder calls, on a boundary of an internal table or buffer, on two features meeting (e.g. a built-in "
        "fang together with HEAD/OPTIONS/404 handling, nested applications, streaming responses), on an error path "
        "taken once before a normal one, or on rarely used public entry points.",
    15: "Look where earlier authors did not: something a long-running deployment meets and a unit test does not — a "
        "peer that misbehaves at one particular moment (between two reads, between head and body, during a write, "
        "during shutdown), a resource reused after an error, a counter or index near its limit, a timer that fires "
        "at an awkward instant, two sessions or two requests whose combination matters while each alone is fine.",
    17: "Look at what no earlier author touched: error and refusal paths, rarely used public entry points and builder options, "
        "environment-dependent configuration, helpers in ohkami_lib and the macros crate that several features share, the "
        "meeting point of two built-in fangs or of a fang and the automatic HEAD / OPTIONS / 404 handling, Unicode and case "
        "folding, and sizes just past an internal buffer (1 KiB request buffer, header tables). The change must not depend on "
        "the `ws`, `openapi` or non-tokio runtime features.",
    18: "Look at what no earlier author touched (read their list first). Candidates: behaviour under a non-default environment "
        "(OHKAMI_* variables), builder options and public methods nobody used yet, the second and later uses of something a "
        "first use initialises, arithmetic at the edges of an internal buffer or table, an interim or automatic response "
        "(HEAD, OPTIONS, 404, 100/408/413/431) meeting a fang or a keep-alive connection, and helpers in ohkami_lib that "
        "several features share. The change must not depend on the `ws`, `openapi` or non-tokio runtime features.",
    16: "Prefer a change made of TWO cooperating edits in different functions or files that each look harmless alone, "
        "or an optimisation (cache, fast path, buffer reuse, early exit) that is right for ordinary inputs and wrong "
        "for one family of inputs or one order of events.",
}

def props():
    out = {}
    for l in open("/verif/properties.jsonl"):
        d = json.loads(l); out[d["id"]] = d
    return out

def earlier(prop):
    lines = []
    ds = sorted(glob.glob(f"/verif/seeded/{prop}-*/meta.json"), key=lambda p: int(re.search(r"-(\d+)/", p).group(1)))
    for m in ds:
        try:
            b = json.load(open(m)).get("breaks", "")
        except Exception:
            continue
        b = " ".join(b.split())
        if len(b) > 260: b = b[:260].rsplit(" ", 1)[0] + " …"
        lines.append("  - " + b)
    return "\n".join(lines)

def sh(*a, **k):
    return subprocess.run(a, check=False, **k)

def setup(wave, ps):
    P = props(); os.makedirs(f"{ROOT}/prompts", exist_ok=True)
    for p in ps:
        w = f"{ROOT}/{p}"
        if os.path.exists(w):
            sh("git", "-C", "/repo", "worktree", "remove", "--force", w); shutil.rmtree(w, ignore_errors=True)
        sh("git", "-C", "/repo", "worktree", "prune")
        sh("git", "-C", "/repo", "worktree", "add", "--detach", "-q", w, "HEAD")
        d = P[p]
        text = f"""You are helping to evaluate a verification tool for the Rust web framework `ohkami` (a git worktree of it is at {w}; work ONLY inside that directory, never in /repo or /verif, and do not read anything under /verif). Everything is offline: use `cargo ... --offline`; nothing can be downloaded. The crates you may need (tokio etc.) are in the cargo cache; copy {w}/Cargo.lock next to any new Cargo.toml you write so that versions resolve offline, and give a new crate an empty `[workspace]` table.

The following semantic property of ohkami is supposed to hold:

  {p} — {d.get('title','')}
  {d.get('statement','')}

Your task: write ONE realistic change to ohkami's source (the kind of thing a contributor could plausibly submit: a refactor, an optimisation, a "hardening", a tidy-up, a ported feature — not sabotage that a reviewer would spot at a glance, no dead flags, no `if input == "magic"`) that BREAKS this property while
  (a) everything still compiles, with and without features;
  (b) both existing test suites still pass, unedited:   cd {w} && cargo test --workspace --lib --offline     (43 tests)   and   cargo test -p ohkami --lib --features rt_tokio,sse,openapi,DEBUG --offline     (44 tests);
  (c) ordinary use does NOT expose it at once: it needs something specific to manifest — a particular interleaving or timing, a crash/close/fault at a particular point, a multi-step sequence of operations, an unusual (but legal, for this property) input, a particular configuration, or two cooperating sites that each look fine alone.

{HINTS.get(wave, HINTS[16])}

Earlier authors already used the following ideas for this property; yours must be a DIFFERENT idea, in different code or a different mechanism (do not re-use any of them, not even in disguise):
{earlier(p) or '  (none)'}

Deliver, inside {w}/MUTANT/ (create it):
  1. patch.diff — `git diff` of your change against the clean worktree HEAD (source files of ohkami only; it must apply with `git apply` to a clean checkout). Do not include MUTANT/ itself or build output in it.
  2. demo/ — a small stand-alone cargo project (Cargo.toml with `ohkami = {{ path = "../../ohkami", features = ["rt_tokio", ...] }}`, tokio as needed, an empty `[workspace]`, src/main.rs) that demonstrates the breakage: `cargo run --offline` inside demo/ exits 0 on the unchanged tree and exits non-zero (printing what went wrong) with your change applied. It may use real TCP on 127.0.0.1 with a port chosen at run time, or ohkami's in-process `testing` API (feature `DEBUG` is not needed for that; check the crate). It must be deterministic (no flaky timing: if it needs an interleaving, force it).
  3. NOTES.md — three short paragraphs: what the change is and why it looks plausible; exactly what is needed for it to manifest (and what ordinary traffic does NOT trigger it); which files you changed.

Verify (a), (b) and the demo both ways yourself before you finish (git stash / git apply -R to get the clean tree). Leave the worktree with your change APPLIED. When done, reply with a five-line summary (idea, what it needs, files, test results, demo results). Remove `target/` directories you created inside demo/ when you are finished (keep {w}/target).
"""
        open(f"{ROOT}/prompts/{p}.w{wave}.txt", "w").write(text)
        print("prepared", p, w)

def store(n, ps):
    for p in ps:
        src = f"{ROOT}/{p}/MUTANT"; dst = f"/verif/seeded/{p}-{n}"
        if not os.path.exists(f"{src}/patch.diff"): print("no patch for", p); continue
        if os.path.exists(dst): print("exists", dst); continue
        os.makedirs(dst)
        shutil.copy(f"{src}/patch.diff", dst)
        shutil.copytree(f"{src}/demo", f"{dst}/demo", ignore=shutil.ignore_patterns("target"))
        notes = open(f"{src}/NOTES.md").read() if os.path.exists(f"{src}/NOTES.md") else ""
        head = subprocess.run(["git", "-C", "/repo", "rev-parse", "HEAD"], capture_output=True, text=True).stdout.strip()
        files = [l[6:] for l in open(f"{src}/patch.diff") if l.startswith("+++ b/")]
        meta = {"property": p, "breaks": "", "needs_to_manifest": "", "files_changed": files,
                "origin": "written by a fresh sub-agent that was given only the property text, a scratch worktree and one sentence describing each earlier seeded change for this property (to get a different idea); nothing from /verif",
                "base_commit": head, "author_notes": notes, "confirmed_by_me": {}, "check_result": {}}
        json.dump(meta, open(f"{dst}/meta.json", "w"), indent=1, ensure_ascii=False)
        print("stored", dst)

def clean(ps):
    for p in ps:
        w = f"{ROOT}/{p}"
        sh("git", "-C", "/repo", "worktree", "remove", "--force", w); shutil.rmtree(w, ignore_errors=True)
    sh("git", "-C", "/repo", "worktree", "prune")

if __name__ == "__main__":
    c = sys.argv[1]
    if c == "setup": setup(int(sys.argv[2]), sys.argv[3:])
    elif c == "store": store(int(sys.argv[2]), sys.argv[3:])
    elif c == "clean": clean(sys.argv[3:] if False else sys.argv[2:])
    else: print(__doc__); sys.exit(2)
