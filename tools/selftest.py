#!/usr/bin/env python3
"""Self-test of the oracles (not part of any verdict): the reference date formatter and the reference HMAC
are compared with Python's standard library. Exit 0 = agree, 2 = the harness' own models are wrong."""
import json, subprocess, sys, hmac, hashlib, datetime

out = subprocess.run(['/verif/target/release/ohkami-sim', 'selftest-dump'], capture_output=True, text=True)
if out.returncode != 0:
    print('harness error: selftest-dump failed', out.stderr[:300]); sys.exit(2)
d = json.loads(out.stdout)
bad = 0
WD = ['Mon', 'Tue', 'Wed', 'Thu', 'Fri', 'Sat', 'Sun']
MO = ['Jan', 'Feb', 'Mar', 'Apr', 'May', 'Jun', 'Jul', 'Aug', 'Sep', 'Oct', 'Nov', 'Dec']
for t, s in d['dates']:
    dt = datetime.datetime(1970, 1, 1) + datetime.timedelta(seconds=t)
    want = '%s, %02d %s %04d %02d:%02d:%02d GMT' % (WD[dt.weekday()], dt.day, MO[dt.month - 1], dt.year, dt.hour, dt.minute, dt.second)
    if s != want:
        print('harness error: date model differs from Python for', t, s, want); bad += 1
H = {256: hashlib.sha256, 384: hashlib.sha384, 512: hashlib.sha512}
for alg, key, msg, hx in d['hmac']:
    want = hmac.new(key.encode(), msg.encode(), H[alg]).hexdigest()
    if hx != want:
        print('harness error: HMAC model differs from Python for', alg, len(key), msg); bad += 1
if bad:
    sys.exit(2)
print('selftest: %d dates and %d MACs agree with Python' % (len(d['dates']), len(d['hmac'])))
