#!/bin/bash
# usage: fix32.sh <tree>   — the textual part of fix #32, applicable to any tree based on 3bf1802 (used to rebase stored patches)
t=$1
sed -i 's/\.await\.expect("Failed to send response");/.await?;/; s/\.await\.expect("Failed to flush connection");/.await?;/' $t/ohkami/src/response/mod.rs
python3 - "$t" <<'PY'
import re,sys
t=sys.argv[1]
p=t+"/ohkami/src/response/mod.rs"; s=open(p).read()
a=s.index("pub(crate) async fn send("); b=s.index("const _: () = {", a)
body=s[a:b]
body=body.replace(") -> Upgrade {", ") -> std::io::Result<Upgrade> {",1)
body=re.sub(r"\n(\s+)Upgrade::None\n", r"\n\1Ok(Upgrade::None)\n", body)
body=re.sub(r"\n(\s+)Upgrade::WebSocket\(ws\)\n", r"\n\1Ok(Upgrade::WebSocket(ws))\n", body)
s=s[:a]+body+s[b:]
open(p,"w").write(s)
p=t+"/ohkami/src/session/mod.rs"; s=open(p).read()
old1="""                        let upgrade = res.send(&mut self.connection).await;
"""
new1="""                        let Ok(upgrade) = res.send(&mut self.connection).await else {
                            // the peer went away before its response was written
                            break Upgrade::None
                        };
"""
old2="""                    Err(res) => {res.send(&mut self.connection).await;},
"""
new2="""                    Err(res) => if res.send(&mut self.connection).await.is_err() {break Upgrade::None},
"""
assert old1 in s and old2 in s
s=s.replace(old1,new1).replace(old2,new2)
open(p,"w").write(s)
PY
