#!/usr/bin/env bash
# runs every seeded change of /verif/seeded against the quick check of the property it breaks
cd /verif
# optional arguments: ids (C12-1) or properties (C12) to restrict to
for d in seeded/*/; do
    id=$(basename "$d"); prop=${id%%-*}
    if [ $# -gt 0 ]; then
        hit=0; for a in "$@"; do [ "$a" = "$id" ] || [ "$a" = "$prop" ] && hit=1; done
        [ $hit = 1 ] || continue
    fi
    patch="$d/patch.diff"; [ -f "$d/patch.rebased.diff" ] && patch="$d/patch.rebased.diff"
    echo "== $id"
    # seeded/<id>/check_props: the check(s) that decide this change when the property's own cannot (see meta.json); "-" = recorded as not flagged
    props="$prop"; [ -f "$d/check_props" ] && props="$(cat "$d/check_props")"
    if [ "$props" = "-" ]; then echo "   NOT-FLAGGED (see meta.json)"; continue; fi
    tools/mutant.sh "$patch" $props 2>&1 | sed 's/^/   /' | cut -c1-300
done
