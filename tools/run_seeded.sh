#!/usr/bin/env bash
# runs every seeded change of /verif/seeded against the quick check of the property it breaks
cd /verif
for d in seeded/*/; do
    id=$(basename "$d"); prop=${id%%-*}
    patch="$d/patch.diff"; [ -f "$d/patch.rebased.diff" ] && patch="$d/patch.rebased.diff"
    echo "== $id"
    tools/mutant.sh "$patch" "$prop" 2>&1 | sed 's/^/   /' | cut -c1-300
done
