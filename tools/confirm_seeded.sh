#!/usr/bin/env bash
# tools/confirm_seeded.sh <PROP> ["<demo command run inside MUTANT/demo>"]
# Confirms, in the sub-agent's scratch worktree /tmp/mut/<PROP>, that its change (MUTANT/patch.diff)
#   - applies to a clean checkout, compiles and passes both existing test suites,
#   - makes the demonstration fail, and that the demonstration passes without it.
set -u
P="$1"; W=/tmp/mut/$P; demo_cmd="${2:-cargo run --offline}"
cd "$W" || exit 2
git checkout -q -- . 2>/dev/null
git apply --check MUTANT/patch.diff || { echo "NOT-CONFIRMED: patch does not apply to clean HEAD"; exit 1; }
cp "$W/Cargo.lock" MUTANT/demo/Cargo.lock 2>/dev/null
echo "-- demo WITHOUT the change"
( cd MUTANT/demo && eval "$demo_cmd" ) >/tmp/mut/$P.without.log 2>&1; without=$?
git apply MUTANT/patch.diff
echo "-- test suites WITH the change"
t1=$(cargo test --workspace --lib --offline 2>&1 | grep -E "^test result" | awk '{p+=$4; f+=$6} END {print p" passed "f" failed"}')
t2=$(cargo test -p ohkami --lib --features rt_tokio,sse,openapi,DEBUG --offline 2>&1 | grep -E "^test result" | awk '{p+=$4; f+=$6} END {print p" passed "f" failed"}')
# `ohkami::can_howl_on_any_native_async_runtime` measures three seconds of wall clock and fails on a loaded machine, with or
# without any change: one retry
if [ "$t2" != "44 passed 0 failed" ]; then
    t2=$(cargo test -p ohkami --lib --features rt_tokio,sse,openapi,DEBUG --offline 2>&1 | grep -E "^test result" | awk '{p+=$4; f+=$6} END {print p" passed "f" failed"}')
fi
echo "-- demo WITH the change"
( cd MUTANT/demo && eval "$demo_cmd" ) >/tmp/mut/$P.with.log 2>&1; with=$?
echo "baseline: $t1 | feature-gated: $t2 | demo without change: exit $without | demo with change: exit $with"
if [ "$t1" = "43 passed 0 failed" ] && [ "$t2" = "44 passed 0 failed" ] && [ $without -eq 0 ] && [ $with -ne 0 ]; then echo "CONFIRMED $P"; else echo "NOT-CONFIRMED $P"; tail -5 /tmp/mut/$P.with.log; tail -5 /tmp/mut/$P.without.log; fi
