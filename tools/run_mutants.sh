#!/usr/bin/env bash
# runs every mutant of /verif/mutants/INDEX.tsv against the quick checks of the properties it should break
cd /verif
while IFS=$'\t' read -r name props desc; do
    [ -z "$name" ] && continue
    [ -n "${1:-}" ] && [[ "$name" != *"$1"* ]] && continue
    echo "== $name ($desc)"
    tools/mutant.sh "mutants/$name.patch" $props 2>&1 | sed 's/^/   /'
done < mutants/INDEX.tsv
