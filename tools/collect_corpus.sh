#!/usr/bin/env bash
# tools/collect_corpus.sh [ids or properties…]
# For every seeded change (/verif/seeded/<id>) and every own mutant (/verif/mutants/INDEX.tsv): apply it to /repo, run the
# property's quick check, keep the minimised replay file of its first violation as /verif/corpus/<PROP>/<id>.json, undo the
# change. Afterwards every collected file is replayed on the unchanged tree and dropped (loudly) unless it passes there.
# The corpus is re-executed by every run of ./check (driver step 1b): the schedules and scenarios that once told a
# property-breaking change from the tree stay part of the check even when random generation moves elsewhere.
set -u
cd /verif
want() { local id="$1" prop="$2"; shift 2; [ $# -eq 0 ] && return 0; for a in "$@"; do [ "$a" = "$id" ] || [ "$a" = "$prop" ] && return 0; done; return 1; }
collect() { # id prop patch
    local id="$1" prop="$2" patch="$3"
    if ! git -C /repo diff --quiet; then echo "refusing: /repo has uncommitted changes"; exit 2; fi
    git -C /repo apply --check "$patch" 2>/dev/null || { echo "$id: patch does not apply"; return; }
    git -C /repo apply "$patch"
    out=$(VERIF_NO_EVIDENCE=1 ./check "$prop" quick --max-report 1 2>&1); code=$?
    git -C /repo checkout -- . ; git -C /repo clean -fdq -- ohkami ohkami_lib ohkami_macros ohkami_openapi 2>/dev/null
    rp=$(echo "$out" | grep -m1 '^VIOLATION' | sed 's/.*replay=//')
    if [ $code -eq 1 ] && [ -n "$rp" ] && [ -f "$rp" ]; then
        mkdir -p "corpus/$prop"; cp "$rp" "corpus/$prop/$id.json"; echo "$id: kept $(echo "$out" | grep -m1 '^violation:' | cut -c1-120)"
    else
        echo "$id: nothing collected (exit $code)"
    fi
}
ARGS=("$@")
shopt -s nullglob
for d in seeded/*/; do
    id=$(basename "$d"); prop=${id%%-*}
    want "$id" "$prop" ${ARGS[@]+"${ARGS[@]}"} || continue
    patch="$d/patch.diff"; [ -f "$d/patch.rebased.diff" ] && patch="$d/patch.rebased.diff"
    collect "$id" "$prop" "$(realpath "$patch")"
done
while IFS=$'\t' read -r name props desc; do
    [ -z "$name" ] && continue
    for prop in $props; do
        want "$name" "$prop" ${ARGS[@]+"${ARGS[@]}"} || continue
        collect "${name%%-*}" "$prop" "$(realpath "mutants/$name.patch")"
    done
done < mutants/INDEX.tsv
# every corpus file must hold on the unchanged tree
VERIF_NO_EVIDENCE=1 ./check C02 quick --runs 1 >/dev/null 2>&1   # make sure the binary is built from the clean tree
for f in corpus/*/*.json; do
    target/release/ohkami-sim replay "$f" --quiet >/dev/null 2>&1; rc=$?
    if [ $rc -ne 0 ]; then echo "DROPPED $f: does not hold on the unchanged tree (replay exit $rc)"; rm -f "$f"; fi
done
echo "corpus: $(ls corpus/*/*.json 2>/dev/null | wc -l) files"
