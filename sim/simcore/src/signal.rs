//! Simulated interrupt: the closure given to `ctrlc::set_handler` runs on a second OS thread in strict
//! hand-off with the executor thread (exactly one of the two is ever runnable), pausing at the
//! scheduling points that hook K2 adds to ohkami.

use std::sync::mpsc::{channel, Receiver, Sender};
use std::sync::Mutex;

type Handler = Box<dyn FnMut() + Send + 'static>;

pub struct SignalState {
    handler: Option<Handler>,
    /// running handler thread: (resume tx, yielded rx)
    thread: Option<(Sender<()>, Receiver<Yield>, std::thread::JoinHandle<()>)>,
    pub delivered: u32,
    pub finished: u32,
    pub points: Vec<String>,
}

pub enum Yield {
    Point(&'static str),
    Done,
}

static STATE: Mutex<Option<SignalState>> = Mutex::new(None);
thread_local! {
    /// set on the handler thread: (tx to report a yield, rx to wait for resume)
    static ON_SIGNAL_THREAD: std::cell::RefCell<Option<(Sender<Yield>, Receiver<()>)>> = const { std::cell::RefCell::new(None) };
}

pub fn reset() {
    *STATE.lock().unwrap() = Some(SignalState { handler: None, thread: None, delivered: 0, finished: 0, points: Vec::new() });
}

/// called by the ctrlc facade
pub fn set_handler(h: Handler) -> Result<(), ()> {
    let mut g = STATE.lock().unwrap();
    match g.as_mut() {
        None => {
            // no simulated signal in this run: keep nothing
            Ok(())
        }
        Some(s) => {
            if s.handler.is_some() {
                return Err(());
            }
            s.handler = Some(h);
            Ok(())
        }
    }
}

/// environment of the process: SIGINT's disposition is not the default when the program starts (`SIG_IGN` inherited from a
/// shell that started it in the background, a handler some library installed first). `ctrlc::set_handler` overrides
/// that, `ctrlc::try_set_handler` refuses to.
pub static SIGINT_NOT_DEFAULT_AT_START: std::sync::atomic::AtomicBool = std::sync::atomic::AtomicBool::new(false);

/// called by the ctrlc facade for `try_set_handler`
pub fn try_set_handler(h: Handler) -> Result<(), ()> {
    if SIGINT_NOT_DEFAULT_AT_START.load(std::sync::atomic::Ordering::SeqCst) {
        return Err(());
    }
    set_handler(h)
}

pub fn handler_installed() -> bool {
    STATE.lock().unwrap().as_ref().map(|s| s.handler.is_some() || s.thread.is_some()).unwrap_or(false)
}

/// deliver the interrupt: start the handler thread, parked at its entry
pub fn deliver() -> bool {
    let mut g = STATE.lock().unwrap();
    let Some(s) = g.as_mut() else { return false };
    if s.thread.is_some() {
        return false; // previous delivery still running; the kernel would queue, ctrlc would coalesce
    }
    let Some(mut h) = s.handler.take() else { return false };
    let (resume_tx, resume_rx) = channel::<()>();
    let (yield_tx, yield_rx) = channel::<Yield>();
    let jh = std::thread::spawn(move || {
        // wait for the first resume
        if resume_rx.recv().is_err() {
            return;
        }
        let ytx = yield_tx.clone();
        ON_SIGNAL_THREAD.with(|c| *c.borrow_mut() = Some((yield_tx, resume_rx)));
        h();
        ON_SIGNAL_THREAD.with(|c| *c.borrow_mut() = None);
        // give the handler back for a second delivery
        if let Some(s) = STATE.lock().unwrap().as_mut() {
            s.handler = Some(h);
        }
        let _ = ytx.send(Yield::Done);
    });
    s.thread = Some((resume_tx, yield_rx, jh));
    s.delivered += 1;
    true
}

/// is there a handler thread that can take a step?
pub fn can_step() -> bool {
    STATE.lock().unwrap().as_ref().map(|s| s.thread.is_some()).unwrap_or(false)
}

/// let the handler thread run to its next scheduling point (or to completion); executor thread blocks meanwhile
pub fn step() -> Option<String> {
    let (tx, rx, jh) = {
        let mut g = STATE.lock().unwrap();
        let s = g.as_mut()?;
        s.thread.take()?
    };
    tx.send(()).ok()?;
    let y = rx.recv().ok()?;
    let mut g = STATE.lock().unwrap();
    let s = g.as_mut()?;
    match y {
        Yield::Point(p) => {
            s.points.push(format!("sig:{p}"));
            s.thread = Some((tx, rx, jh));
            Some(p.to_string())
        }
        Yield::Done => {
            drop(g);
            let _ = jh.join();
            let mut g = STATE.lock().unwrap();
            let s = g.as_mut()?;
            s.finished += 1;
            s.points.push("sig:done".to_string());
            Some("done".to_string())
        }
    }
}

/// called from hook K2 on whichever thread executes the point.
/// On the handler thread: park and hand control back. Returns true if it was the handler thread.
pub fn sched_point_on_signal_thread(name: &'static str) -> bool {
    ON_SIGNAL_THREAD.with(|c| {
        let b = c.borrow();
        match b.as_ref() {
            None => false,
            Some((ytx, rrx)) => {
                let _ = ytx.send(Yield::Point(name));
                let _ = rrx.recv();
                true
            }
        }
    })
}

pub fn record_point(p: String) {
    if let Some(s) = STATE.lock().unwrap().as_mut() {
        s.points.push(p);
    }
}
pub fn take_points() -> Vec<String> {
    STATE.lock().unwrap().as_mut().map(|s| std::mem::take(&mut s.points)).unwrap_or_default()
}
pub fn counts() -> (u32, u32) {
    STATE.lock().unwrap().as_ref().map(|s| (s.delivered, s.finished)).unwrap_or((0, 0))
}

pub fn clear() {
    *STATE.lock().unwrap() = None;
}
pub fn on_signal_thread() -> bool {
    ON_SIGNAL_THREAD.with(|c| c.borrow().is_some())
}
