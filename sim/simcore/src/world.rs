//! The simulated world: one thread-local instance per run.
//! Executor (single OS thread, tape-driven), discrete-event clock, timers, TCP-like byte transport.

use crate::tape::Tape;
use std::cell::RefCell;
use std::collections::{BTreeMap, BinaryHeap, VecDeque};
use std::future::Future;
use std::io;
use std::pin::Pin;
use std::sync::{Arc, Mutex};
use std::task::{Context, Poll, Wake, Waker};

pub type Ns = u64;
pub const MS: Ns = 1_000_000;
pub const SEC: Ns = 1_000_000_000;

// ---------------------------------------------------------------------------------------------
// run queue shared with wakers (wakers must be Send + Sync: ohkami parks one in a static and the
// simulated signal thread wakes it)

#[derive(Default)]
pub struct RunQ {
    woken: Mutex<Vec<usize>>,
}
struct TaskWaker {
    id: usize,
    q: Arc<RunQ>,
}
impl Wake for TaskWaker {
    fn wake(self: Arc<Self>) {
        self.q.woken.lock().unwrap().push(self.id);
    }
    fn wake_by_ref(self: &Arc<Self>) {
        self.q.woken.lock().unwrap().push(self.id);
    }
}

// ---------------------------------------------------------------------------------------------

#[derive(Clone, Debug, PartialEq, Eq)]
pub enum TaskState {
    Runnable,
    Parked,
    Done,
    Panicked { file: String, line: u32, message: String },
}

pub struct Task {
    pub id: usize,
    pub name: String,
    /// "server" | "session" | "client" | "aux"
    pub kind: &'static str,
    fut: Option<Pin<Box<dyn Future<Output = ()>>>>,
    pub state: TaskState,
    spinner: bool,
    spin_epoch: u64,
    pub polls: u64,
    /// executor step at which the task finished (completed or panicked)
    pub done_step: Option<u64>,
    pub spawn_step: u64,
}

#[derive(Debug)]
enum EventKind {
    /// segment `seq` of direction (conn, dir) arrives
    Arrive { conn: usize, dir: usize },
    Timer { id: usize },
    Connect { listener: usize, conn: usize },
    /// scripted callback (fault injection: clock jump, fs mutation, signal ...)
    Script { id: usize },
}

struct Event {
    at: Ns,
    seq: u64,
    kind: EventKind,
}
impl PartialEq for Event {
    fn eq(&self, o: &Self) -> bool {
        self.at == o.at && self.seq == o.seq
    }
}
impl Eq for Event {}
impl PartialOrd for Event {
    fn partial_cmp(&self, o: &Self) -> Option<std::cmp::Ordering> {
        Some(self.cmp(o))
    }
}
impl Ord for Event {
    fn cmp(&self, o: &Self) -> std::cmp::Ordering {
        // BinaryHeap is a max-heap: reverse
        (o.at, o.seq).cmp(&(self.at, self.seq))
    }
}

struct TimerState {
    fired: bool,
    cancelled: bool,
    waker: Option<Waker>,
}

#[derive(Clone, Debug)]
pub enum Seg {
    Data(Vec<u8>),
    Fin,
    Rst(io::ErrorKind),
}

/// one direction of a connection
#[derive(Default)]
struct Pipe {
    inflight: VecDeque<(Ns, Seg)>,
    last_arrival: Ns,
    rx: VecDeque<u8>,
    rx_fin: bool,
    rx_err: Option<io::ErrorKind>,
    reader_waker: Option<Waker>,
    writer_waker: Option<Waker>,
    reader_gone: bool,
    writer_gone: bool,
    /// total bytes that ever entered rx
    pub delivered: u64,
    /// total bytes taken out by the reader
    pub consumed: u64,
}

/// per-connection behaviour of the simulated socket as seen by the *server* end
#[derive(Clone, Debug)]
pub struct ConnCfg {
    /// server `read` returns a tape-chosen 1..=available bytes
    pub short_reads: bool,
    /// server `write` accepts a tape-chosen 1..=n bytes
    pub short_writes: bool,
    /// bytes the client is willing to buffer before the server's write pends
    pub window: usize,
    /// latency of the connect (accept becomes possible after it)
    pub connect_delay: Ns,
}
impl Default for ConnCfg {
    fn default() -> Self {
        ConnCfg { short_reads: false, short_writes: false, window: 1 << 30, connect_delay: 0 }
    }
}

pub const C2S: usize = 0;
pub const S2C: usize = 1;

struct Conn {
    pipes: [Pipe; 2],
    cfg: ConnCfg,
    pub accepted: bool,
    pub refused: bool,
    connect_waker: Option<Waker>,
    pub accepted_at: Option<Ns>,
    /// executor step at which the server's `accept` took this connection
    pub accepted_step: Option<u64>,
    pub server_reads: u64,
    pub server_read_pending_since: Option<Ns>,
}

struct ListenerState {
    addr: String,
    backlog: VecDeque<usize>,
    waker: Option<Waker>,
    closed: bool,
    /// injected failures of `accept` (a failing system call: ECONNABORTED, EMFILE …), returned before anything queued
    accept_errors: VecDeque<io::ErrorKind>,
}

#[derive(Default, Clone, Debug)]
pub struct Limits {
    pub max_steps: u64,
    pub max_time: Ns,
}

#[derive(Debug, Clone, PartialEq, Eq)]
pub enum EndReason {
    Quiescent,
    /// only self-waking tasks remain, nothing else can happen
    Livelock,
    StepCap,
    TimeCap,
    Stopped,
}

pub struct World {
    pub tape: Tape,
    pub now: Ns,
    pub wall_base: u64,
    pub wall_offset: i64,
    /// Some => the wall clock is frozen at this instant (clock fault: the scenario owns the wall clock)
    pub wall_frozen: Option<u64>,
    seq: u64,
    events: BinaryHeap<Event>,
    timers: Vec<TimerState>,
    scripts: Vec<Option<Box<dyn FnOnce()>>>,
    pub tasks: Vec<Task>,
    runq: Arc<RunQ>,
    conns: Vec<Conn>,
    listeners: Vec<ListenerState>,
    effects: u64,
    /// value of `effects` when the current poll began (livelock guard)
    poll_effects_start: u64,
    progress: u64,
    pub steps: u64,
    pub limits: Limits,
    pub stop: bool,
    // observation
    pub trace_on: bool,
    pub trace: Vec<String>,
    pub trace_hash: u64,
    pub sched_hash: u64,
    pub counters: BTreeMap<&'static str, u64>,
    pub spawn_hook: Option<Box<dyn FnMut(usize)>>,
    /// extra schedulable item (the simulated signal-handler thread); returns true if it can step
    pub ext_ready: Option<Box<dyn FnMut() -> bool>>,
    pub ext_step: Option<Box<dyn FnMut()>>,
    pub current_task: Option<usize>,
}

thread_local! {
    static WORLD: RefCell<Option<Box<World>>> = const { RefCell::new(None) };
}

pub fn install(w: World) {
    WORLD.with(|c| *c.borrow_mut() = Some(Box::new(w)));
}
pub fn uninstall() -> Option<Box<World>> {
    WORLD.with(|c| c.borrow_mut().take())
}
pub fn is_installed() -> bool {
    WORLD.with(|c| c.borrow().is_some())
}
pub fn with<R>(f: impl FnOnce(&mut World) -> R) -> R {
    WORLD.with(|c| {
        let mut b = c.borrow_mut();
        f(b.as_mut().expect("no simulated world installed"))
    })
}
pub fn try_with<R>(f: impl FnOnce(&mut World) -> R) -> Option<R> {
    WORLD.with(|c| match c.try_borrow_mut() {
        Ok(mut b) => b.as_mut().map(|w| f(w)),
        Err(_) => None,
    })
}

fn fnv(h: &mut u64, bytes: &[u8]) {
    for b in bytes {
        *h ^= *b as u64;
        *h = h.wrapping_mul(0x1000_0000_01b3);
    }
}

impl World {
    pub fn new(tape: Tape) -> Self {
        World {
            tape,
            now: 0,
            wall_base: 1_700_000_000,
            wall_offset: 0,
            wall_frozen: None,
            seq: 0,
            events: BinaryHeap::new(),
            timers: Vec::new(),
            scripts: Vec::new(),
            tasks: Vec::new(),
            runq: Arc::new(RunQ::default()),
            conns: Vec::new(),
            listeners: Vec::new(),
            effects: 0,
            poll_effects_start: 0,
            progress: 1,
            steps: 0,
            limits: Limits { max_steps: 200_000, max_time: 600 * SEC },
            stop: false,
            trace_on: false,
            trace: Vec::new(),
            trace_hash: 0xcbf2_9ce4_8422_2325,
            sched_hash: 0xcbf2_9ce4_8422_2325,
            counters: BTreeMap::new(),
            spawn_hook: None,
            ext_ready: None,
            ext_step: None,
            current_task: None,
        }
    }

    pub fn count(&mut self, name: &'static str) {
        *self.counters.entry(name).or_insert(0) += 1;
    }
    pub fn count_n(&mut self, name: &'static str, n: u64) {
        *self.counters.entry(name).or_insert(0) += n;
    }

    /// record an event: always hashed, formatted only when tracing
    pub fn ev(&mut self, code: &str, a: u64, b: u64) {
        let mut h = self.trace_hash;
        fnv(&mut h, &self.now.to_le_bytes());
        fnv(&mut h, code.as_bytes());
        fnv(&mut h, &a.to_le_bytes());
        fnv(&mut h, &b.to_le_bytes());
        self.trace_hash = h;
        if self.trace_on {
            self.trace.push(format!("t={} {} {} {}", self.now, code, a, b));
        }
    }
    pub fn note(&mut self, text: &str) {
        let mut h = self.trace_hash;
        fnv(&mut h, text.as_bytes());
        self.trace_hash = h;
        if self.trace_on {
            self.trace.push(format!("t={} {}", self.now, text));
        }
    }

    pub fn wall_secs(&self) -> u64 {
        if let Some(f) = self.wall_frozen {
            return f;
        }
        let t = self.wall_base as i128 + (self.now / SEC) as i128 + self.wall_offset as i128;
        t.clamp(0, 253_402_300_799) as u64
    }

    fn next_seq(&mut self) -> u64 {
        self.seq += 1;
        self.seq
    }
    fn push_event(&mut self, at: Ns, kind: EventKind) {
        let seq = self.next_seq();
        self.events.push(Event { at, seq, kind });
    }

    // ---- tasks -------------------------------------------------------------------------------

    pub fn spawn(&mut self, name: String, kind: &'static str, fut: Pin<Box<dyn Future<Output = ()>>>) -> usize {
        let id = self.tasks.len();
        self.tasks.push(Task {
            id,
            name,
            kind,
            fut: Some(fut),
            state: TaskState::Runnable,
            spinner: false,
            spin_epoch: 0,
            polls: 0,
            done_step: None,
            spawn_step: self.steps,
        });
        self.effects += 1;
        self.ev("spawn", id as u64, 0);
        id
    }

    pub fn task_done(&self, id: usize) -> bool {
        matches!(self.tasks[id].state, TaskState::Done | TaskState::Panicked { .. })
    }

    // ---- scripts ------------------------------------------------------------------------------

    pub fn at(&mut self, when: Ns, f: Box<dyn FnOnce()>) {
        let id = self.scripts.len();
        self.scripts.push(Some(f));
        self.push_event(when.max(self.now), EventKind::Script { id });
    }

    // ---- timers -------------------------------------------------------------------------------

    pub fn timer_new(&mut self, dur: Ns) -> usize {
        let id = self.timers.len();
        self.timers.push(TimerState { fired: false, cancelled: false, waker: None });
        let at = self.now.saturating_add(dur);
        self.push_event(at, EventKind::Timer { id });
        self.effects += 1;
        self.ev("timer.arm", id as u64, at);
        id
    }
    pub fn timer_poll(&mut self, id: usize, cx: &mut Context<'_>) -> Poll<()> {
        let t = &mut self.timers[id];
        if t.fired {
            Poll::Ready(())
        } else {
            t.waker = Some(cx.waker().clone());
            Poll::Pending
        }
    }
    pub fn timer_cancel(&mut self, id: usize) {
        let t = &mut self.timers[id];
        if !t.fired {
            t.cancelled = true;
            t.waker = None;
        }
    }

    // ---- network ------------------------------------------------------------------------------

    pub fn bind(&mut self, addr: &str) -> io::Result<usize> {
        if self.listeners.iter().any(|l| !l.closed && l.addr == addr) {
            return Err(io::Error::new(io::ErrorKind::AddrInUse, "address in use (sim)"));
        }
        let id = self.listeners.len();
        self.listeners.push(ListenerState { addr: addr.to_string(), backlog: VecDeque::new(), waker: None, closed: false, accept_errors: VecDeque::new() });
        self.effects += 1;
        self.ev("bind", id as u64, 0);
        Ok(id)
    }
    pub fn listener_close(&mut self, id: usize) {
        let l = &mut self.listeners[id];
        l.closed = true;
        let pending: Vec<usize> = l.backlog.drain(..).collect();
        self.ev("listener.close", id as u64, pending.len() as u64);
        for c in pending {
            self.conns[c].refused = true;
            if let Some(w) = self.conns[c].connect_waker.take() {
                w.wake();
            }
        }
    }
    pub fn listener_open(&self, addr: &str) -> bool {
        self.listeners.iter().any(|l| !l.closed && l.addr == addr)
    }
    /// fault: the next `accept` on the listener bound to `addr` fails with `kind` (no queued connection is consumed)
    pub fn inject_accept_error(&mut self, addr: &str, kind: io::ErrorKind) -> bool {
        let Some(id) = self.listeners.iter().position(|l| !l.closed && l.addr == addr) else { return false };
        self.listeners[id].accept_errors.push_back(kind);
        if let Some(w) = self.listeners[id].waker.take() {
            w.wake();
        }
        self.ev("accept.err.injected", id as u64, 0);
        true
    }
    pub fn poll_accept(&mut self, id: usize, cx: &mut Context<'_>) -> Poll<io::Result<usize>> {
        let now = self.now;
        if let Some(kind) = self.listeners[id].accept_errors.pop_front() {
            self.effects += 1;
            self.count("fault.accept_error");
            self.ev("accept.err", id as u64, 0);
            return Poll::Ready(Err(io::Error::new(kind, "simulated accept failure")));
        }
        let l = &mut self.listeners[id];
        if let Some(c) = l.backlog.pop_front() {
            self.conns[c].accepted = true;
            self.conns[c].accepted_at = Some(now);
            self.conns[c].accepted_step = Some(self.steps);
            self.effects += 1;
            self.ev("accept", c as u64, 0);
            if let Some(w) = self.conns[c].connect_waker.take() {
                w.wake();
            }
            Poll::Ready(Ok(c))
        } else {
            l.waker = Some(cx.waker().clone());
            Poll::Pending
        }
    }

    /// client side: start a connection; it reaches the listener's backlog after cfg.connect_delay
    pub fn connect(&mut self, addr: &str, cfg: ConnCfg) -> usize {
        let c = self.conns.len();
        let delay = cfg.connect_delay;
        self.conns.push(Conn {
            pipes: [Pipe::default(), Pipe::default()],
            cfg,
            accepted: false,
            refused: false,
            connect_waker: None,
            accepted_at: None,
            accepted_step: None,
            server_reads: 0,
            server_read_pending_since: None,
        });
        let l = self.listeners.iter().position(|l| l.addr == addr && !l.closed);
        self.ev("connect", c as u64, l.map(|x| x as u64).unwrap_or(u64::MAX));
        match l {
            None => self.conns[c].refused = true,
            Some(l) => {
                let at = self.now + delay;
                self.push_event(at, EventKind::Connect { listener: l, conn: c });
            }
        }
        c
    }
    pub fn conn_refused(&self, c: usize) -> bool {
        self.conns[c].refused
    }
    pub fn conn_accepted(&self, c: usize) -> bool {
        self.conns[c].accepted
    }
    pub fn conn_accepted_step(&self, c: usize) -> Option<u64> {
        self.conns[c].accepted_step
    }
    pub fn conn_accepted_at(&self, c: usize) -> Option<Ns> {
        self.conns[c].accepted_at
    }
    pub fn n_conns(&self) -> usize {
        self.conns.len()
    }
    /// (delivered to server, consumed by server) byte counts of the client->server direction
    pub fn c2s_progress(&self, c: usize) -> (u64, u64) {
        let p = &self.conns[c].pipes[C2S];
        (p.delivered, p.consumed)
    }
    pub fn c2s_inflight(&self, c: usize) -> usize {
        self.conns[c].pipes[C2S].inflight.len()
    }
    pub fn server_end_open(&self, c: usize) -> bool {
        !self.conns[c].pipes[C2S].reader_gone
    }
    pub fn server_parked_in_read(&self, c: usize) -> bool {
        self.conns[c].server_read_pending_since.is_some() && !self.conns[c].pipes[C2S].reader_gone
    }
    pub fn set_connect_waker(&mut self, c: usize, w: Waker) {
        self.conns[c].connect_waker = Some(w);
    }

    /// enqueue a segment on direction `dir` of connection `c`, arriving after `delay`
    pub fn send_seg(&mut self, c: usize, dir: usize, seg: Seg, delay: Ns) {
        let now = self.now;
        let p = &mut self.conns[c].pipes[dir];
        let at = (now + delay).max(p.last_arrival);
        p.last_arrival = at;
        let n = match &seg {
            Seg::Data(d) => d.len() as u64,
            Seg::Fin => u64::MAX,
            Seg::Rst(_) => u64::MAX - 1,
        };
        p.inflight.push_back((at, seg));
        self.effects += 1;
        self.ev(if dir == C2S { "send.c2s" } else { "send.s2c" }, c as u64, n);
        self.push_event(at, EventKind::Arrive { conn: c, dir });
    }

    fn arrive(&mut self, c: usize, dir: usize) {
        let p = &mut self.conns[c].pipes[dir];
        let Some((_, seg)) = p.inflight.pop_front() else { return };
        let code;
        let mut n = 0u64;
        match seg {
            Seg::Data(d) => {
                n = d.len() as u64;
                if !p.reader_gone {
                    p.delivered += n;
                    p.rx.extend(d);
                }
                code = "arrive.data";
            }
            Seg::Fin => {
                p.rx_fin = true;
                code = "arrive.fin";
            }
            Seg::Rst(k) => {
                p.rx_err = Some(k);
                // a reset also kills the other direction for the writer
                code = "arrive.rst";
            }
        }
        if let Some(w) = p.reader_waker.take() {
            w.wake();
        }
        if code == "arrive.rst" {
            let other = &mut self.conns[c].pipes[1 - dir];
            other.reader_gone = true;
            if let Some(w) = other.writer_waker.take() {
                w.wake();
            }
        }
        self.ev(code, (c * 2 + dir) as u64, n);
    }

    /// read on the receiving end of direction `dir`
    pub fn poll_read(&mut self, c: usize, dir: usize, cx: &mut Context<'_>, buf: &mut [u8]) -> Poll<io::Result<usize>> {
        if buf.is_empty() {
            return Poll::Ready(Ok(0));
        }
        let short = dir == C2S && self.conns[c].cfg.short_reads;
        let avail = self.conns[c].pipes[dir].rx.len();
        if avail > 0 {
            let mut n = avail.min(buf.len());
            if short && n > 1 {
                // bias: half of the time everything, else uniform
                if self.tape.chance(1, 2) {
                    n = 1 + self.tape.draw(n as u32) as usize;
                    self.count("fault.short_read");
                }
            }
            let p = &mut self.conns[c].pipes[dir];
            for slot in buf.iter_mut().take(n) {
                *slot = p.rx.pop_front().unwrap();
            }
            p.consumed += n as u64;
            if let Some(w) = p.writer_waker.take() {
                w.wake();
            }
            if dir == C2S {
                self.conns[c].server_reads += 1;
                self.conns[c].server_read_pending_since = None;
            }
            self.effects += 1;
            self.ev("read", (c * 2 + dir) as u64, n as u64);
            return Poll::Ready(Ok(n));
        }
        let p = &mut self.conns[c].pipes[dir];
        if let Some(k) = p.rx_err {
            self.effects += 1;
            self.ev("read.err", (c * 2 + dir) as u64, 0);
            if dir == C2S {
                self.conns[c].server_read_pending_since = None;
            }
            return Poll::Ready(Err(io::Error::new(k, "simulated connection error")));
        }
        if p.rx_fin || p.writer_gone && p.inflight.is_empty() {
            self.effects += 1;
            self.ev("read.eof", (c * 2 + dir) as u64, 0);
            if dir == C2S {
                self.conns[c].server_read_pending_since = None;
            }
            return Poll::Ready(Ok(0));
        }
        p.reader_waker = Some(cx.waker().clone());
        if dir == C2S && self.conns[c].server_read_pending_since.is_none() {
            self.conns[c].server_read_pending_since = Some(self.now);
        }
        Poll::Pending
    }

    /// write on the sending end of the server->client direction (immediate delivery, bounded window)
    pub fn poll_write_s2c(&mut self, c: usize, cx: &mut Context<'_>, data: &[u8]) -> Poll<io::Result<usize>> {
        if data.is_empty() {
            return Poll::Ready(Ok(0));
        }
        let cfg_short = self.conns[c].cfg.short_writes;
        let window = self.conns[c].cfg.window;
        let p = &mut self.conns[c].pipes[S2C];
        if p.reader_gone || p.rx_err.is_some() {
            self.effects += 1;
            self.ev("write.err", c as u64, 0);
            return Poll::Ready(Err(io::Error::new(io::ErrorKind::BrokenPipe, "simulated broken pipe")));
        }
        let room = window.saturating_sub(p.rx.len());
        if room == 0 {
            p.writer_waker = Some(cx.waker().clone());
            self.count("fault.write_backpressure");
            return Poll::Pending;
        }
        let mut n = room.min(data.len());
        if cfg_short && n > 1 && self.tape.chance(1, 2) {
            n = 1 + self.tape.draw(n as u32) as usize;
            self.count("fault.short_write");
        }
        let p = &mut self.conns[c].pipes[S2C];
        p.rx.extend(&data[..n]);
        p.delivered += n as u64;
        if let Some(w) = p.reader_waker.take() {
            w.wake();
        }
        self.effects += 1;
        self.ev("write", c as u64, n as u64);
        Poll::Ready(Ok(n))
    }

    /// the endpoint that *reads* direction `read_dir` and writes the other one goes away
    pub fn close_end(&mut self, c: usize, read_dir: usize) {
        let write_dir = 1 - read_dir;
        {
            let p = &mut self.conns[c].pipes[read_dir];
            p.reader_gone = true;
            p.rx.clear();
            if let Some(w) = p.writer_waker.take() {
                w.wake();
            }
        }
        {
            let p = &mut self.conns[c].pipes[write_dir];
            p.writer_gone = true;
            if let Some(w) = p.reader_waker.take() {
                w.wake();
            }
        }
        if read_dir == C2S {
            self.conns[c].server_read_pending_since = None;
        }
        self.effects += 1;
        self.ev("close", (c * 2 + read_dir) as u64, 0);
    }

    // ---- executor -----------------------------------------------------------------------------

    fn drain_wakes(&mut self) -> Vec<usize> {
        let v: Vec<usize> = std::mem::take(&mut *self.runq.woken.lock().unwrap());
        v
    }
    fn apply_wakes(&mut self, woken: &[usize]) {
        for &id in woken {
            if let Some(t) = self.tasks.get_mut(id) {
                if t.state == TaskState::Parked {
                    t.state = TaskState::Runnable;
                }
            }
        }
    }

    fn purge_cancelled(&mut self) {
        while let Some(top) = self.events.peek() {
            match top.kind {
                EventKind::Timer { id } if self.timers[id].cancelled => {
                    self.events.pop();
                }
                _ => break,
            }
        }
    }

    fn process_event(&mut self, ev: Event) -> Option<Box<dyn FnOnce()>> {
        self.progress += 1;
        match ev.kind {
            EventKind::Arrive { conn, dir } => self.arrive(conn, dir),
            EventKind::Timer { id } => {
                let t = &mut self.timers[id];
                if !t.cancelled {
                    t.fired = true;
                    if let Some(w) = t.waker.take() {
                        w.wake();
                    }
                    self.ev("timer.fire", id as u64, 0);
                }
            }
            EventKind::Connect { listener, conn } => {
                let l = &mut self.listeners[listener];
                if l.closed {
                    self.conns[conn].refused = true;
                    if let Some(w) = self.conns[conn].connect_waker.take() {
                        w.wake();
                    }
                    self.ev("connect.refused", conn as u64, 0);
                } else {
                    l.backlog.push_back(conn);
                    if let Some(w) = l.waker.take() {
                        w.wake();
                    }
                    self.ev("connect.backlog", conn as u64, 0);
                }
            }
            EventKind::Script { id } => {
                self.ev("script", id as u64, 0);
                return self.scripts[id].take();
            }
        }
        None
    }
}

pub struct PanicInfo {
    pub file: String,
    pub line: u32,
    pub message: String,
}
thread_local! {
    pub static LAST_PANIC: RefCell<Option<PanicInfo>> = const { RefCell::new(None) };
}

/// install a silent panic hook that records location and message for the executor
pub fn install_panic_hook() {
    std::panic::set_hook(Box::new(|info| {
        let (file, line) = info.location().map(|l| (l.file().to_string(), l.line())).unwrap_or_default();
        let message = if let Some(s) = info.payload().downcast_ref::<&str>() {
            s.to_string()
        } else if let Some(s) = info.payload().downcast_ref::<String>() {
            s.clone()
        } else {
            "<non-string panic>".to_string()
        };
        if std::env::var_os("VERIF_PANIC_VERBOSE").is_some() {
            eprintln!("panic at {file}:{line}: {message}");
        }
        LAST_PANIC.with(|p| *p.borrow_mut() = Some(PanicInfo { file, line, message }));
    }));
}

enum Opt {
    Task(usize),
    Event,
    Ext,
}

/// Run the installed world until quiescence or a cap. Never holds the world borrowed while polling.
pub fn run() -> EndReason {
    loop {
        // -------- decide
        let decision = with(|w| {
            if w.stop {
                return Err(EndReason::Stopped);
            }
            if w.steps >= w.limits.max_steps {
                return Err(EndReason::StepCap);
            }
            if w.now > w.limits.max_time {
                return Err(EndReason::TimeCap);
            }
            let woken = w.drain_wakes();
            w.apply_wakes(&woken);
            w.purge_cancelled();
            let mut opts: Vec<Opt> = Vec::new();
            for t in &w.tasks {
                if t.state == TaskState::Runnable && !t.spinner {
                    opts.push(Opt::Task(t.id));
                }
            }
            if w.events.peek().map(|e| e.at <= w.now).unwrap_or(false) {
                opts.push(Opt::Event);
            }
            Ok(opts)
        });
        let mut opts = match decision {
            Ok(o) => o,
            Err(r) => return r,
        };
        // the external item (signal thread) is asked outside the borrow: it may touch the world
        let ext_ready = {
            let f = with(|w| w.ext_ready.take());
            match f {
                Some(mut f) => {
                    let r = f();
                    with(|w| w.ext_ready = Some(f));
                    r
                }
                None => false,
            }
        };
        if ext_ready {
            opts.push(Opt::Ext);
        }
        if opts.is_empty() {
            // spinners that have something new to look at
            let done = with(|w| {
                for t in &w.tasks {
                    if t.state == TaskState::Runnable && t.spinner && w.progress > t.spin_epoch {
                        opts.push(Opt::Task(t.id));
                    }
                }
                if !opts.is_empty() {
                    return None;
                }
                match w.events.peek() {
                    Some(e) => {
                        let at = e.at;
                        if at > w.now {
                            w.now = at;
                        }
                        None
                    }
                    None => {
                        let spinning = w.tasks.iter().any(|t| t.state == TaskState::Runnable && t.spinner);
                        Some(if spinning { EndReason::Livelock } else { EndReason::Quiescent })
                    }
                }
            });
            if let Some(r) = done {
                return r;
            }
            if opts.is_empty() {
                continue; // clock advanced; re-decide
            }
        }
        let choice = with(|w| {
            let n = opts.len() as u32;
            let i = w.tape.draw(n) as usize;
            w.steps += 1;
            i
        });
        match opts.swap_remove(choice) {
            Opt::Event => {
                let script = with(|w| {
                    let ev = w.events.pop().unwrap();
                    let mut h = w.sched_hash;
                    fnv(&mut h, b"E");
                    w.sched_hash = h;
                    w.process_event(ev)
                });
                if let Some(f) = script {
                    f();
                }
            }
            Opt::Ext => {
                let f = with(|w| {
                    w.progress += 1;
                    let mut h = w.sched_hash;
                    fnv(&mut h, b"X");
                    w.sched_hash = h;
                    w.ext_step.take()
                });
                if let Some(mut f) = f {
                    f();
                    with(|w| w.ext_step = Some(f));
                }
            }
            Opt::Task(id) => poll_task(id),
        }
    }
}

/// poll one specific runnable task once, outside the scheduler's choice (used to let the server bind first)
pub fn poll_task_now(id: usize) {
    let ok = with(|w| { let woken = w.drain_wakes(); w.apply_wakes(&woken); w.tasks[id].state == TaskState::Runnable });
    if ok {
        poll_task(id)
    }
}

fn poll_task(id: usize) {
    let (mut fut, waker, effects_before, was_spinner) = with(|w| {
        let q = w.runq.clone();
        let t = &mut w.tasks[id];
        t.polls += 1;
        let fut = t.fut.take().expect("task polled re-entrantly");
        let was_spinner = t.spinner;
        t.state = TaskState::Parked;
        w.current_task = Some(id);
        w.poll_effects_start = w.effects;
        let kind = t.kind;
        let mut h = w.sched_hash;
        fnv(&mut h, kind.as_bytes());
        w.sched_hash = h;
        w.ev("poll", id as u64, 0);
        (fut, Waker::from(Arc::new(TaskWaker { id, q })), w.effects, was_spinner)
    });
    let mut cx = Context::from_waker(&waker);
    let res = std::panic::catch_unwind(std::panic::AssertUnwindSafe(|| fut.as_mut().poll(&mut cx)));
    match res {
        Ok(Poll::Pending) => {
            with(|w| {
                let woken = w.drain_wakes();
                let self_woke = woken.contains(&id);
                let other_woke = woken.iter().any(|x| *x != id);
                let had_effect = w.effects != effects_before || other_woke;
                w.apply_wakes(&woken);
                let progress = w.progress;
                let t = &mut w.tasks[id];
                t.fut = Some(fut);
                if self_woke {
                    t.state = TaskState::Runnable;
                }
                if self_woke && !had_effect {
                    if !t.spinner {
                        // first time seen spinning
                    }
                    t.spinner = true;
                    t.spin_epoch = progress;
                    w.count("exec.spin");
                } else {
                    t.spinner = false;
                }
                if !(was_spinner && self_woke && !had_effect) {
                    w.progress += 1;
                }
                w.current_task = None;
            });
        }
        Ok(Poll::Ready(())) => {
            // drop the future outside the borrow (destructors call into the world)
            drop(fut);
            with(|w| {
                let woken = w.drain_wakes();
                w.apply_wakes(&woken);
                w.tasks[id].state = TaskState::Done;
                w.tasks[id].done_step = Some(w.steps);
                w.tasks[id].spinner = false;
                w.progress += 1;
                w.current_task = None;
                w.ev("done", id as u64, 0);
            });
        }
        Err(_) => {
            let info = LAST_PANIC.with(|p| p.borrow_mut().take());
            if info.is_none() && std::env::var_os("VERIF_PANIC_VERBOSE").is_some() {
                eprintln!("poll_task({id}): a panic was caught but its record is gone (nested={})", NESTED.with(|n| n.get()));
            }
            // dropping a future that panicked mid-poll: run destructors, tolerate a second panic
            let _ = std::panic::catch_unwind(std::panic::AssertUnwindSafe(move || drop(fut)));
            with(|w| {
                let woken = w.drain_wakes();
                w.apply_wakes(&woken);
                let (file, line, message) = match info {
                    Some(i) => (i.file, i.line, i.message),
                    None => (String::new(), 0, String::from("<unknown panic>")),
                };
                w.note(&format!("panic task={} {}:{} {}", id, file, line, message));
                w.tasks[id].state = TaskState::Panicked { file, line, message };
                w.tasks[id].done_step = Some(w.steps);
                w.tasks[id].spinner = false;
                w.progress += 1;
                w.current_task = None;
            });
        }
    }
}

thread_local! {
    static NESTED: std::cell::Cell<bool> = const { std::cell::Cell::new(false) };
}

/// Preemption at an instrumented point INSIDE a poll (hook K5: an access to a shared atomic). The task being polled
/// stays where it is — exactly as a thread that is descheduled between two instructions — while up to `k` other runnable
/// tasks, chosen by the tape, are polled in its place. One level only: a nested poll is never preempted again.
/// Returns how many tasks were polled.
pub fn run_others_nested(k: usize) -> usize {
    if NESTED.with(|n| n.get()) || std::thread::panicking() {
        // (a task that is unwinding drops its live locals — the wait-group guard among them — inside its own poll;
        // nothing is preempted there: one panic record at a time)
        return 0;
    }
    let Some((cur, eff)) = try_with(|w| (w.current_task, w.poll_effects_start)) else { return 0 };
    if cur.is_none() {
        return 0; // not inside a poll (e.g. tear-down): nothing to preempt
    }
    NESTED.with(|n| n.set(true));
    let mut done = 0;
    for _ in 0..k {
        let pick = with(|w| {
            let woken = w.drain_wakes();
            w.apply_wakes(&woken);
            let cands: Vec<usize> = w.tasks.iter().filter(|t| t.state == TaskState::Runnable && Some(t.id) != cur && t.fut.is_some() && !t.spinner).map(|t| t.id).collect();
            if cands.is_empty() {
                None
            } else {
                let i = w.tape.draw(cands.len() as u32) as usize;
                w.count("exec.nested_poll");
                w.ev("nested", cands[i] as u64, 0);
                Some(cands[i])
            }
        });
        let Some(id) = pick else { break };
        poll_task(id);
        with(|w| {
            w.current_task = cur;
            w.poll_effects_start = eff;
        });
        done += 1;
    }
    NESTED.with(|n| n.set(false));
    done
}

/// drop every remaining task future (runs the real destructors), outside the world borrow
pub fn drop_all_tasks() {
    let n = with(|w| w.tasks.len());
    // sessions first, server last does not matter; go in reverse id order
    for id in (0..n).rev() {
        let fut = with(|w| w.tasks[id].fut.take());
        if let Some(f) = fut {
            let _ = std::panic::catch_unwind(std::panic::AssertUnwindSafe(move || drop(f)));
        }
    }
}

// ---------------------------------------------------------------------------------------------
// futures / handles used by facades and by the harness' clients

pub fn spawn_task(name: impl Into<String>, kind: &'static str, fut: impl Future<Output = ()> + 'static) -> usize {
    let name = name.into();
    let id = with(|w| w.spawn(name, kind, Box::pin(fut)));
    let hook = with(|w| w.spawn_hook.take());
    if let Some(mut h) = hook {
        h(id);
        with(|w| w.spawn_hook = Some(h));
    }
    id
}

pub struct Sleep {
    id: Option<usize>,
    dur: Ns,
}
pub fn sleep(dur: Ns) -> Sleep {
    Sleep { id: None, dur }
}
impl Future for Sleep {
    type Output = ();
    fn poll(mut self: Pin<&mut Self>, cx: &mut Context<'_>) -> Poll<()> {
        let dur = self.dur;
        let id = match self.id {
            Some(id) => id,
            None => {
                let id = with(|w| w.timer_new(dur));
                self.id = Some(id);
                id
            }
        };
        with(|w| w.timer_poll(id, cx))
    }
}
impl Drop for Sleep {
    fn drop(&mut self) {
        if let Some(id) = self.id {
            let _ = try_with(|w| w.timer_cancel(id));
        }
    }
}

/// yield once to the scheduler (self-wake); counts as an effect so it is not taken for a spinner
pub struct YieldNow(bool);
pub fn yield_now() -> YieldNow {
    YieldNow(false)
}
impl Future for YieldNow {
    type Output = ();
    fn poll(mut self: Pin<&mut Self>, cx: &mut Context<'_>) -> Poll<()> {
        if self.0 {
            Poll::Ready(())
        } else {
            self.0 = true;
            with(|w| w.effects += 1);
            cx.waker().wake_by_ref();
            Poll::Pending
        }
    }
}

/// one end of a simulated connection
pub struct Endpoint {
    pub conn: usize,
    /// the direction this end reads
    pub read_dir: usize,
    closed: bool,
}
/// I/O operations one poll of one task may perform before the simulator stops it
pub const LIVELOCK_OPS: u64 = 50_000;

impl Endpoint {
    pub fn server(conn: usize) -> Self {
        Endpoint { conn, read_dir: C2S, closed: false }
    }
    pub fn client(conn: usize) -> Self {
        Endpoint { conn, read_dir: S2C, closed: false }
    }
    pub fn poll_read(&mut self, cx: &mut Context<'_>, buf: &mut [u8]) -> Poll<io::Result<usize>> {
        with(|w| w.poll_read(self.conn, self.read_dir, cx, buf))
    }
    pub fn poll_write(&mut self, cx: &mut Context<'_>, data: &[u8]) -> Poll<io::Result<usize>> {
        assert_eq!(self.read_dir, C2S, "only the server end writes through poll_write");
        let r = with(|w| w.poll_write_s2c(self.conn, cx, data));
        // a task that keeps writing without ever returning to the executor cannot be preempted: stop it with a panic,
        // which the executor records against the task (the checks report it as a livelock)
        let ops = with(|w| w.effects.saturating_sub(w.poll_effects_start));
        if ops > LIVELOCK_OPS {
            with(|w| w.count("exec.livelock_stopped"));
            panic!("simulator: livelock: a task performed {ops} I/O operations within one poll without yielding");
        }
        r
    }
    /// client end: put a segment on the wire
    pub fn send(&self, seg: Seg, delay: Ns) {
        assert_eq!(self.read_dir, S2C);
        with(|w| w.send_seg(self.conn, C2S, seg, delay))
    }
    pub fn read<'a>(&'a mut self, buf: &'a mut [u8]) -> ReadFut<'a> {
        ReadFut { ep: self, buf }
    }
    pub fn close(&mut self) {
        if !self.closed {
            self.closed = true;
            let (c, d) = (self.conn, self.read_dir);
            let _ = try_with(|w| w.close_end(c, d));
        }
    }
}
impl Drop for Endpoint {
    fn drop(&mut self) {
        self.close()
    }
}
pub struct ReadFut<'a> {
    ep: &'a mut Endpoint,
    buf: &'a mut [u8],
}
impl Future for ReadFut<'_> {
    type Output = io::Result<usize>;
    fn poll(self: Pin<&mut Self>, cx: &mut Context<'_>) -> Poll<Self::Output> {
        let this = self.get_mut();
        this.ep.poll_read(cx, this.buf)
    }
}

pub struct ConnectFut {
    conn: usize,
}
/// client: connect to `addr`; resolves when accepted (Ok) or refused (Err)
pub fn connect(addr: &str, cfg: ConnCfg) -> ConnectFut {
    let conn = with(|w| w.connect(addr, cfg));
    ConnectFut { conn }
}
impl ConnectFut {
    pub fn conn(&self) -> usize {
        self.conn
    }
    /// do not wait for the accept: a TCP connect completes in the kernel backlog
    pub fn immediate(self) -> Endpoint {
        Endpoint::client(self.conn)
    }
}
impl Future for ConnectFut {
    type Output = io::Result<Endpoint>;
    fn poll(self: Pin<&mut Self>, cx: &mut Context<'_>) -> Poll<Self::Output> {
        let c = self.conn;
        with(|w| {
            if w.conn_refused(c) {
                Poll::Ready(Err(io::Error::new(io::ErrorKind::ConnectionRefused, "refused (sim)")))
            } else if w.conn_accepted(c) {
                Poll::Ready(Ok(Endpoint::client(c)))
            } else {
                w.set_connect_waker(c, cx.waker().clone());
                Poll::Pending
            }
        })
    }
}

pub struct ListenerHandle {
    pub id: usize,
}
impl ListenerHandle {
    pub fn bind(addr: &str) -> io::Result<Self> {
        with(|w| w.bind(addr)).map(|id| ListenerHandle { id })
    }
    pub fn poll_accept(&self, cx: &mut Context<'_>) -> Poll<io::Result<Endpoint>> {
        with(|w| w.poll_accept(self.id, cx)).map(|r| r.map(Endpoint::server))
    }
}
impl Drop for ListenerHandle {
    fn drop(&mut self) {
        let id = self.id;
        let _ = try_with(|w| w.listener_close(id));
    }
}
