//! simcore: deterministic single-threaded world (executor, clock, network, signal hand-off) driven by a tape.
pub mod tape;
pub mod world;
pub mod signal;
pub use tape::Tape;
pub use world::*;
