//! The tape: the single source of every nondeterministic choice of a run.
//!
//! While generating, values come from xoshiro256** seeded from (seed, property, run index)
//! and are appended (already reduced modulo the bound, so that tapes stay small and readable).
//! While replaying, `draw(n)` is `tape[pos] % n` and `0` past the end; generators are written
//! so that 0 is the simplest choice (no fault, first task, shortest string, fewest items).

#[derive(Clone)]
struct Xoshiro([u64; 4]);

fn splitmix64(x: &mut u64) -> u64 {
    *x = x.wrapping_add(0x9E37_79B9_7F4A_7C15);
    let mut z = *x;
    z = (z ^ (z >> 30)).wrapping_mul(0xBF58_476D_1CE4_E5B9);
    z = (z ^ (z >> 27)).wrapping_mul(0x94D0_49BB_1331_11EB);
    z ^ (z >> 31)
}

impl Xoshiro {
    fn new(seed: u64) -> Self {
        let mut s = seed;
        Xoshiro([splitmix64(&mut s), splitmix64(&mut s), splitmix64(&mut s), splitmix64(&mut s)])
    }
    fn next(&mut self) -> u64 {
        let s = &mut self.0;
        let r = s[1].wrapping_mul(5).rotate_left(7).wrapping_mul(9);
        let t = s[1] << 17;
        s[2] ^= s[0];
        s[3] ^= s[1];
        s[1] ^= s[2];
        s[0] ^= s[3];
        s[2] ^= t;
        s[3] = s[3].rotate_left(45);
        r
    }
}

pub fn mix_seed(seed: u64, prop: &str, run: u64) -> u64 {
    let mut h: u64 = 0xcbf2_9ce4_8422_2325 ^ seed.wrapping_mul(0x9E37_79B9_7F4A_7C15);
    for b in prop.bytes() {
        h ^= b as u64;
        h = h.wrapping_mul(0x1000_0000_01b3);
    }
    h ^= run.wrapping_mul(0xD6E8_FEB8_6659_FD93);
    let mut s = h;
    splitmix64(&mut s)
}

pub struct Tape {
    pub data: Vec<u32>,
    pos: usize,
    rng: Option<Xoshiro>,
}

impl Tape {
    pub fn generate(seed: u64) -> Self {
        Tape { data: Vec::new(), pos: 0, rng: Some(Xoshiro::new(seed)) }
    }
    pub fn replay(data: Vec<u32>) -> Self {
        Tape { data, pos: 0, rng: None }
    }
    pub fn position(&self) -> usize {
        self.pos
    }
    /// the part of the tape that was actually consumed
    pub fn consumed(&self) -> Vec<u32> {
        let mut v = self.data.clone();
        v.truncate(self.pos.min(v.len()));
        // trailing zeros carry no information (past-the-end reads are 0)
        while v.last() == Some(&0) {
            v.pop();
        }
        v
    }
    /// a value in [0, n); n <= 1 consumes nothing
    pub fn draw(&mut self, n: u32) -> u32 {
        if n <= 1 {
            return 0;
        }
        let v = match &mut self.rng {
            Some(rng) => {
                let v = (rng.next() >> 16) as u32 % n;
                self.data.push(v);
                v
            }
            None => self.data.get(self.pos).copied().unwrap_or(0) % n,
        };
        self.pos += 1;
        v
    }
    /// true with probability num/den; false is the simple choice
    pub fn chance(&mut self, num: u32, den: u32) -> bool {
        // value 0 must be "false": true iff v >= den - num
        let v = self.draw(den);
        v >= den - num.min(den)
    }
    /// inclusive range, lo is the simple choice
    pub fn range(&mut self, lo: u64, hi: u64) -> u64 {
        if hi <= lo {
            return lo;
        }
        let span = hi - lo + 1;
        if span <= u32::MAX as u64 {
            lo + self.draw(span as u32) as u64
        } else {
            let hi_part = self.draw(((span >> 32) + 1).min(u32::MAX as u64) as u32) as u64;
            let lo_part = self.draw(u32::MAX) as u64;
            lo + ((hi_part << 32) | lo_part) % span
        }
    }
    pub fn pick<'a, T>(&mut self, items: &'a [T]) -> &'a T {
        &items[self.draw(items.len() as u32) as usize]
    }
    /// index drawn with the given integer weights; index 0 is the simple choice
    pub fn weighted(&mut self, weights: &[u32]) -> usize {
        let total: u32 = weights.iter().sum();
        let mut v = self.draw(total);
        for (i, w) in weights.iter().enumerate() {
            if v < *w {
                return i;
            }
            v -= *w;
        }
        0
    }
}
