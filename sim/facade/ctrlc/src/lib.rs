//! Stand-in for the `ctrlc` crate: the handler closure ohkami builds is handed to the simulator.
#[derive(Debug)]
pub enum Error {
    MultipleHandlers,
    System(std::io::Error),
}
impl std::fmt::Display for Error {
    fn fmt(&self, f: &mut std::fmt::Formatter<'_>) -> std::fmt::Result {
        f.write_str("ctrlc (sim): multiple handlers")
    }
}
impl std::error::Error for Error {}

pub fn set_handler<F: FnMut() + Send + 'static>(handler: F) -> Result<(), Error> {
    simcore::signal::set_handler(Box::new(handler)).map_err(|_| Error::MultipleHandlers)
}
/// like the real crate: refuses when the signal's disposition is not the default (see `SIGINT_NOT_DEFAULT_AT_START`)
pub fn try_set_handler<F: FnMut() + Send + 'static>(handler: F) -> Result<(), Error> {
    simcore::signal::try_set_handler(Box::new(handler)).map_err(|_| Error::System(std::io::Error::new(std::io::ErrorKind::AlreadyExists, "simulated: SIGINT disposition is not SIG_DFL")))
}
