//! Stand-in for the `ctrlc` crate: the handler closure ohkami builds is handed to the simulator.
#[derive(Debug)]
pub enum Error {
    MultipleHandlers,
}
impl std::fmt::Display for Error {
    fn fmt(&self, f: &mut std::fmt::Formatter<'_>) -> std::fmt::Result {
        f.write_str("ctrlc (sim): multiple handlers")
    }
}
impl std::error::Error for Error {}

pub fn set_handler<F: FnMut() + Send + 'static>(handler: F) -> Result<(), Error> {
    simcore::signal::set_handler(Box::new(handler)).map_err(|_| Error::MultipleHandlers)
}
pub fn try_set_handler<F: FnMut() + Send + 'static>(handler: F) -> Result<(), Error> {
    set_handler(handler)
}
