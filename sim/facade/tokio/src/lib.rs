//! Stand-in for the `tokio` crate: exactly the surface ohkami (rt_tokio, sse) uses, with tokio's
//! documented semantics, routed to the simulator (`simcore`). No runtime, thread, socket or real timer.

pub mod io {
    use std::future::Future;
    use std::io;
    use std::pin::Pin;
    use std::task::{Context, Poll};

    pub struct ReadBuf<'a> {
        buf: &'a mut [u8],
        filled: usize,
    }
    impl<'a> ReadBuf<'a> {
        pub fn new(buf: &'a mut [u8]) -> Self {
            ReadBuf { buf, filled: 0 }
        }
        pub fn filled(&self) -> &[u8] {
            &self.buf[..self.filled]
        }
        pub fn remaining(&self) -> usize {
            self.buf.len() - self.filled
        }
        pub fn capacity(&self) -> usize {
            self.buf.len()
        }
        pub fn initialize_unfilled(&mut self) -> &mut [u8] {
            &mut self.buf[self.filled..]
        }
        pub fn advance(&mut self, n: usize) {
            assert!(self.filled + n <= self.buf.len());
            self.filled += n;
        }
        pub fn put_slice(&mut self, s: &[u8]) {
            assert!(s.len() <= self.remaining());
            self.buf[self.filled..self.filled + s.len()].copy_from_slice(s);
            self.filled += s.len();
        }
    }

    pub trait AsyncRead {
        fn poll_read(self: Pin<&mut Self>, cx: &mut Context<'_>, buf: &mut ReadBuf<'_>) -> Poll<io::Result<()>>;
    }
    pub trait AsyncWrite {
        fn poll_write(self: Pin<&mut Self>, cx: &mut Context<'_>, buf: &[u8]) -> Poll<io::Result<usize>>;
        fn poll_flush(self: Pin<&mut Self>, cx: &mut Context<'_>) -> Poll<io::Result<()>>;
        fn poll_shutdown(self: Pin<&mut Self>, cx: &mut Context<'_>) -> Poll<io::Result<()>>;
        /// tokio's default: the first non-empty buffer goes through `poll_write`
        fn poll_write_vectored(self: Pin<&mut Self>, cx: &mut Context<'_>, bufs: &[io::IoSlice<'_>]) -> Poll<io::Result<usize>> {
            let buf = bufs.iter().find(|b| !b.is_empty()).map_or(&[][..], |b| &**b);
            self.poll_write(cx, buf)
        }
        fn is_write_vectored(&self) -> bool {
            false
        }
    }

    impl<T: ?Sized + AsyncRead + Unpin> AsyncRead for &mut T {
        fn poll_read(mut self: Pin<&mut Self>, cx: &mut Context<'_>, buf: &mut ReadBuf<'_>) -> Poll<io::Result<()>> {
            Pin::new(&mut **self).poll_read(cx, buf)
        }
    }
    impl<T: ?Sized + AsyncWrite + Unpin> AsyncWrite for &mut T {
        fn poll_write(mut self: Pin<&mut Self>, cx: &mut Context<'_>, buf: &[u8]) -> Poll<io::Result<usize>> {
            Pin::new(&mut **self).poll_write(cx, buf)
        }
        fn poll_flush(mut self: Pin<&mut Self>, cx: &mut Context<'_>) -> Poll<io::Result<()>> {
            Pin::new(&mut **self).poll_flush(cx)
        }
        fn poll_shutdown(mut self: Pin<&mut Self>, cx: &mut Context<'_>) -> Poll<io::Result<()>> {
            Pin::new(&mut **self).poll_shutdown(cx)
        }
        fn poll_write_vectored(mut self: Pin<&mut Self>, cx: &mut Context<'_>, bufs: &[io::IoSlice<'_>]) -> Poll<io::Result<usize>> {
            Pin::new(&mut **self).poll_write_vectored(cx, bufs)
        }
        fn is_write_vectored(&self) -> bool {
            (**self).is_write_vectored()
        }
    }

    /// tokio implements AsyncRead for byte slices; ohkami's `testing` module relies on it
    impl AsyncRead for &[u8] {
        fn poll_read(mut self: Pin<&mut Self>, _cx: &mut Context<'_>, buf: &mut ReadBuf<'_>) -> Poll<io::Result<()>> {
            let n = self.len().min(buf.remaining());
            let (a, b) = self.split_at(n);
            buf.put_slice(a);
            *self = b;
            Poll::Ready(Ok(()))
        }
    }
    impl AsyncWrite for Vec<u8> {
        fn poll_write(self: Pin<&mut Self>, _cx: &mut Context<'_>, buf: &[u8]) -> Poll<io::Result<usize>> {
            self.get_mut().extend_from_slice(buf);
            Poll::Ready(Ok(buf.len()))
        }
        fn poll_flush(self: Pin<&mut Self>, _cx: &mut Context<'_>) -> Poll<io::Result<()>> {
            Poll::Ready(Ok(()))
        }
        fn poll_shutdown(self: Pin<&mut Self>, _cx: &mut Context<'_>) -> Poll<io::Result<()>> {
            Poll::Ready(Ok(()))
        }
    }

    pub struct Read<'a, R: ?Sized> {
        r: &'a mut R,
        buf: &'a mut [u8],
    }
    impl<R: AsyncRead + Unpin + ?Sized> Future for Read<'_, R> {
        type Output = io::Result<usize>;
        fn poll(self: Pin<&mut Self>, cx: &mut Context<'_>) -> Poll<Self::Output> {
            let me = self.get_mut();
            let mut rb = ReadBuf::new(me.buf);
            match Pin::new(&mut *me.r).poll_read(cx, &mut rb) {
                Poll::Ready(Ok(())) => Poll::Ready(Ok(rb.filled().len())),
                Poll::Ready(Err(e)) => Poll::Ready(Err(e)),
                Poll::Pending => Poll::Pending,
            }
        }
    }

    pub struct ReadExact<'a, R: ?Sized> {
        r: &'a mut R,
        buf: &'a mut [u8],
        done: usize,
    }
    impl<R: AsyncRead + Unpin + ?Sized> Future for ReadExact<'_, R> {
        type Output = io::Result<usize>;
        fn poll(self: Pin<&mut Self>, cx: &mut Context<'_>) -> Poll<Self::Output> {
            let me = self.get_mut();
            loop {
                if me.done == me.buf.len() {
                    return Poll::Ready(Ok(me.done));
                }
                let mut rb = ReadBuf::new(&mut me.buf[me.done..]);
                match Pin::new(&mut *me.r).poll_read(cx, &mut rb) {
                    Poll::Ready(Ok(())) => {
                        let n = rb.filled().len();
                        if n == 0 {
                            return Poll::Ready(Err(io::Error::new(io::ErrorKind::UnexpectedEof, "early eof")));
                        }
                        me.done += n;
                    }
                    Poll::Ready(Err(e)) => return Poll::Ready(Err(e)),
                    Poll::Pending => return Poll::Pending,
                }
            }
        }
    }

    pub trait AsyncReadExt: AsyncRead {
        fn read<'a>(&'a mut self, buf: &'a mut [u8]) -> Read<'a, Self>
        where
            Self: Unpin,
        {
            Read { r: self, buf }
        }
        fn read_exact<'a>(&'a mut self, buf: &'a mut [u8]) -> ReadExact<'a, Self>
        where
            Self: Unpin,
        {
            ReadExact { r: self, buf, done: 0 }
        }
    }
    impl<R: AsyncRead + ?Sized> AsyncReadExt for R {}

    pub struct WriteAll<'a, W: ?Sized> {
        w: &'a mut W,
        buf: &'a [u8],
    }
    impl<W: AsyncWrite + Unpin + ?Sized> Future for WriteAll<'_, W> {
        type Output = io::Result<()>;
        fn poll(self: Pin<&mut Self>, cx: &mut Context<'_>) -> Poll<Self::Output> {
            let me = self.get_mut();
            while !me.buf.is_empty() {
                match Pin::new(&mut *me.w).poll_write(cx, me.buf) {
                    Poll::Ready(Ok(0)) => return Poll::Ready(Err(io::ErrorKind::WriteZero.into())),
                    Poll::Ready(Ok(n)) => me.buf = &me.buf[n..],
                    Poll::Ready(Err(e)) => return Poll::Ready(Err(e)),
                    Poll::Pending => return Poll::Pending,
                }
            }
            Poll::Ready(Ok(()))
        }
    }
    pub struct Write<'a, W: ?Sized> {
        w: &'a mut W,
        buf: &'a [u8],
    }
    impl<W: AsyncWrite + Unpin + ?Sized> Future for Write<'_, W> {
        type Output = io::Result<usize>;
        fn poll(self: Pin<&mut Self>, cx: &mut Context<'_>) -> Poll<Self::Output> {
            let me = self.get_mut();
            Pin::new(&mut *me.w).poll_write(cx, me.buf)
        }
    }
    pub struct Flush<'a, W: ?Sized> {
        w: &'a mut W,
    }
    impl<W: AsyncWrite + Unpin + ?Sized> Future for Flush<'_, W> {
        type Output = io::Result<()>;
        fn poll(self: Pin<&mut Self>, cx: &mut Context<'_>) -> Poll<Self::Output> {
            let me = self.get_mut();
            Pin::new(&mut *me.w).poll_flush(cx)
        }
    }
    pub struct Shutdown<'a, W: ?Sized> {
        w: &'a mut W,
    }
    impl<W: AsyncWrite + Unpin + ?Sized> Future for Shutdown<'_, W> {
        type Output = io::Result<()>;
        fn poll(self: Pin<&mut Self>, cx: &mut Context<'_>) -> Poll<Self::Output> {
            let me = self.get_mut();
            Pin::new(&mut *me.w).poll_shutdown(cx)
        }
    }

    pub struct WriteVectored<'a, 'b, W: ?Sized> {
        w: &'a mut W,
        bufs: &'a [io::IoSlice<'b>],
    }
    impl<W: AsyncWrite + Unpin + ?Sized> Future for WriteVectored<'_, '_, W> {
        type Output = io::Result<usize>;
        fn poll(self: Pin<&mut Self>, cx: &mut Context<'_>) -> Poll<Self::Output> {
            let me = self.get_mut();
            Pin::new(&mut *me.w).poll_write_vectored(cx, me.bufs)
        }
    }

    pub trait AsyncWriteExt: AsyncWrite {
        fn write_vectored<'a, 'b>(&'a mut self, bufs: &'a [io::IoSlice<'b>]) -> WriteVectored<'a, 'b, Self>
        where
            Self: Unpin,
        {
            WriteVectored { w: self, bufs }
        }
        fn write<'a>(&'a mut self, src: &'a [u8]) -> Write<'a, Self>
        where
            Self: Unpin,
        {
            Write { w: self, buf: src }
        }
        fn write_all<'a>(&'a mut self, src: &'a [u8]) -> WriteAll<'a, Self>
        where
            Self: Unpin,
        {
            WriteAll { w: self, buf: src }
        }
        fn flush(&mut self) -> Flush<'_, Self>
        where
            Self: Unpin,
        {
            Flush { w: self }
        }
        fn shutdown(&mut self) -> Shutdown<'_, Self>
        where
            Self: Unpin,
        {
            Shutdown { w: self }
        }
    }
    impl<W: AsyncWrite + ?Sized> AsyncWriteExt for W {}
}

pub mod net {
    use super::io::{AsyncRead, AsyncWrite, ReadBuf};
    use simcore::{Endpoint, ListenerHandle};
    use std::future::Future;
    use std::io;
    use std::net::{IpAddr, Ipv4Addr, SocketAddr};
    use std::pin::Pin;
    use std::task::{Context, Poll};

    /// In simulation an address is just a name; anything ohkami users pass is accepted.
    pub trait ToSocketAddrs {
        fn sim_name(&self) -> String;
    }
    impl ToSocketAddrs for &str {
        fn sim_name(&self) -> String {
            self.to_string()
        }
    }
    impl ToSocketAddrs for String {
        fn sim_name(&self) -> String {
            self.clone()
        }
    }
    impl ToSocketAddrs for (&str, u16) {
        fn sim_name(&self) -> String {
            format!("{}:{}", self.0, self.1)
        }
    }
    impl ToSocketAddrs for (String, u16) {
        fn sim_name(&self) -> String {
            format!("{}:{}", self.0, self.1)
        }
    }
    impl ToSocketAddrs for SocketAddr {
        fn sim_name(&self) -> String {
            self.to_string()
        }
    }
    impl ToSocketAddrs for (IpAddr, u16) {
        fn sim_name(&self) -> String {
            format!("{}:{}", self.0, self.1)
        }
    }

    pub struct TcpListener {
        inner: ListenerHandle,
    }
    impl TcpListener {
        pub async fn bind<A: ToSocketAddrs>(addr: A) -> io::Result<TcpListener> {
            ListenerHandle::bind(&addr.sim_name()).map(|inner| TcpListener { inner })
        }
        pub fn accept(&self) -> Accept<'_> {
            Accept { l: self }
        }
        pub fn local_addr(&self) -> io::Result<SocketAddr> {
            Ok(SocketAddr::new(IpAddr::V4(Ipv4Addr::new(10, 0, 0, 2)), 80))
        }
    }
    pub struct Accept<'a> {
        l: &'a TcpListener,
    }
    impl Future for Accept<'_> {
        type Output = io::Result<(TcpStream, SocketAddr)>;
        fn poll(self: Pin<&mut Self>, cx: &mut Context<'_>) -> Poll<Self::Output> {
            match self.l.inner.poll_accept(cx) {
                Poll::Pending => Poll::Pending,
                Poll::Ready(Err(e)) => Poll::Ready(Err(e)),
                Poll::Ready(Ok(ep)) => {
                    let port = 40000 + (ep.conn % 20000) as u16;
                    Poll::Ready(Ok((TcpStream { ep }, SocketAddr::new(IpAddr::V4(Ipv4Addr::new(10, 0, 0, 1)), port))))
                }
            }
        }
    }

    pub struct TcpStream {
        ep: Endpoint,
    }
    impl TcpStream {
        pub fn sim_conn(&self) -> usize {
            self.ep.conn
        }
        // socket options and addresses: inert in simulation (latency is a tape decision, not a socket option)
        pub fn peer_addr(&self) -> io::Result<SocketAddr> {
            Ok(SocketAddr::new(IpAddr::V4(Ipv4Addr::new(10, 0, 0, 1)), 40000 + (self.ep.conn % 20000) as u16))
        }
        pub fn local_addr(&self) -> io::Result<SocketAddr> {
            Ok(SocketAddr::new(IpAddr::V4(Ipv4Addr::new(10, 0, 0, 2)), 80))
        }
        pub fn set_nodelay(&self, _nodelay: bool) -> io::Result<()> {
            Ok(())
        }
        pub fn nodelay(&self) -> io::Result<bool> {
            Ok(false)
        }
        pub fn set_ttl(&self, _ttl: u32) -> io::Result<()> {
            Ok(())
        }
    }
    impl AsyncRead for TcpStream {
        fn poll_read(self: Pin<&mut Self>, cx: &mut Context<'_>, buf: &mut ReadBuf<'_>) -> Poll<io::Result<()>> {
            let me = self.get_mut();
            let dst = buf.initialize_unfilled();
            match me.ep.poll_read(cx, dst) {
                Poll::Pending => Poll::Pending,
                Poll::Ready(Err(e)) => Poll::Ready(Err(e)),
                Poll::Ready(Ok(n)) => {
                    buf.advance(n);
                    Poll::Ready(Ok(()))
                }
            }
        }
    }
    impl AsyncWrite for TcpStream {
        fn poll_write(self: Pin<&mut Self>, cx: &mut Context<'_>, buf: &[u8]) -> Poll<io::Result<usize>> {
            self.get_mut().ep.poll_write(cx, buf)
        }
        fn poll_flush(self: Pin<&mut Self>, _cx: &mut Context<'_>) -> Poll<io::Result<()>> {
            // tokio: flush on a TcpStream is a no-op
            Poll::Ready(Ok(()))
        }
        fn poll_shutdown(self: Pin<&mut Self>, _cx: &mut Context<'_>) -> Poll<io::Result<()>> {
            Poll::Ready(Ok(()))
        }
        /// a TCP stream gathers (`writev`): the bytes of all buffers are offered to the transport as one write, which may
        /// stop anywhere (short write, window) — inside the first buffer, at a buffer boundary or inside a later one
        fn poll_write_vectored(self: Pin<&mut Self>, cx: &mut Context<'_>, bufs: &[io::IoSlice<'_>]) -> Poll<io::Result<usize>> {
            let mut all = Vec::with_capacity(bufs.iter().map(|b| b.len()).sum());
            for b in bufs {
                all.extend_from_slice(b);
            }
            self.get_mut().ep.poll_write(cx, &all)
        }
        fn is_write_vectored(&self) -> bool {
            true
        }
    }
}

pub mod time {
    pub use super::time_extras::{timeout, Timeout};
    pub mod error {
        pub use super::super::time_extras::Elapsed;
    }
    pub use std::time::Duration;
    use std::future::Future;
    use std::pin::Pin;
    use std::task::{Context, Poll};

    pub struct Sleep(simcore::Sleep);
    pub fn sleep(d: Duration) -> Sleep {
        let ns = d.as_nanos().min(u64::MAX as u128 / 4) as u64;
        Sleep(simcore::sleep(ns))
    }
    impl Future for Sleep {
        type Output = ();
        fn poll(self: Pin<&mut Self>, cx: &mut Context<'_>) -> Poll<()> {
            // Sleep is Unpin here (simcore::Sleep holds an id only)
            Pin::new(&mut self.get_mut().0).poll(cx)
        }
    }
}

pub mod time_extras {
    //! `tokio::time::timeout` over the simulated clock (not used by ohkami itself — it has `util::timeout_in` — but a
    //! change to ohkami may reach for it, and must then meet simulated time too)
    use super::time::{sleep, Sleep};
    use std::future::Future;
    use std::pin::Pin;
    use std::task::{Context, Poll};
    use std::time::Duration;

    #[derive(Debug, PartialEq, Eq)]
    pub struct Elapsed(());
    impl std::fmt::Display for Elapsed {
        fn fmt(&self, f: &mut std::fmt::Formatter<'_>) -> std::fmt::Result {
            f.write_str("deadline has elapsed")
        }
    }
    impl std::error::Error for Elapsed {}

    pub struct Timeout<F> {
        fut: Pin<Box<F>>,
        sleep: Sleep,
    }
    pub fn timeout<F: Future>(d: Duration, fut: F) -> Timeout<F> {
        Timeout { fut: Box::pin(fut), sleep: sleep(d) }
    }
    impl<F: Future> Future for Timeout<F> {
        type Output = Result<F::Output, Elapsed>;
        fn poll(self: Pin<&mut Self>, cx: &mut Context<'_>) -> Poll<Self::Output> {
            let me = unsafe { self.get_unchecked_mut() };
            if let Poll::Ready(v) = me.fut.as_mut().poll(cx) {
                return Poll::Ready(Ok(v));
            }
            match Pin::new(&mut me.sleep).poll(cx) {
                Poll::Ready(()) => Poll::Ready(Err(Elapsed(()))),
                Poll::Pending => Poll::Pending,
            }
        }
    }
}

pub mod task {
    use std::future::Future;

    pub struct JoinHandle<T>(std::marker::PhantomData<T>, pub usize);

    /// tokio::task::spawn: the task becomes a schedulable item of the simulated executor
    pub fn spawn<F>(fut: F) -> JoinHandle<F::Output>
    where
        F: Future + Send + 'static,
        F::Output: Send + 'static,
    {
        let id = simcore::spawn_task("session", "session", async move {
            let _ = fut.await;
        });
        JoinHandle(std::marker::PhantomData, id)
    }
    pub async fn yield_now() {
        simcore::yield_now().await
    }
}

pub use task::spawn;
