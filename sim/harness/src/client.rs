//! Simulated HTTP client: an async task on the simulated executor, with an independent HTTP/1.1
//! response parser (DESIGN.md A.2). It records exactly what arrived.

use simcore::{connect, sleep, ConnCfg, Endpoint, Ns, Seg, Sleep, SEC};
use std::future::Future;
use std::io;
use std::pin::Pin;
use std::task::{Context, Poll};

#[derive(Clone, Debug, PartialEq)]
pub enum Framing {
    /// status or request method forbids a body
    NoBody,
    Length(usize),
    Chunked(Vec<usize>),
    /// neither Content-Length nor chunked on a response that may carry a body
    Undetermined,
}

#[derive(Clone, Debug)]
pub struct Resp {
    pub status: u16,
    pub reason: String,
    pub headers: Vec<(String, String)>,
    pub body: Vec<u8>,
    pub framing: Framing,
    /// exact bytes of this response on the wire
    pub raw: Vec<u8>,
    pub head_len: usize,
    /// interim (1xx, not 101) responses that came in front of this one: skipped — a server may send `100 Continue` — but
    /// counted, and part of `masked()`: whether it sends one must not depend on how the request was cut
    pub interim: u32,
}
impl Resp {
    pub fn header(&self, name: &str) -> Option<&str> {
        self.headers.iter().find(|(n, _)| n.eq_ignore_ascii_case(name)).map(|(_, v)| v.as_str())
    }
    pub fn header_all(&self, name: &str) -> Vec<&str> {
        self.headers.iter().filter(|(n, _)| n.eq_ignore_ascii_case(name)).map(|(_, v)| v.as_str()).collect()
    }
    pub fn body_text(&self) -> String {
        String::from_utf8_lossy(&self.body).into_owned()
    }
    /// canonical rendering with Date masked, for metamorphic comparisons
    pub fn masked(&self) -> String {
        let mut hs: Vec<String> = self
            .headers
            .iter()
            .map(|(n, v)| {
                let n = n.to_ascii_lowercase();
                if n == "date" {
                    format!("{n}: <masked>")
                } else {
                    format!("{n}: {v}")
                }
            })
            .collect();
        hs.sort();
        let interim = if self.interim > 0 { format!("interim={} | ", self.interim) } else { String::new() };
        format!("{interim}{} | {} | {:?} | {}", self.status, hs.join(" ; "), self.framing_kind(), hex(&self.body))
    }
    pub fn framing_kind(&self) -> &'static str {
        match self.framing {
            Framing::NoBody => "nobody",
            Framing::Length(_) => "length",
            Framing::Chunked(_) => "chunked",
            Framing::Undetermined => "undetermined",
        }
    }
}

pub fn hex(b: &[u8]) -> String {
    let mut s = String::with_capacity(b.len() * 2);
    for x in b {
        s.push_str(&format!("{:02x}", x));
    }
    s
}
pub fn unhex(s: &str) -> Option<Vec<u8>> {
    if s.len() % 2 != 0 {
        return None;
    }
    (0..s.len()).step_by(2).map(|i| u8::from_str_radix(s.get(i..i + 2)?, 16).ok()).collect()
}

#[derive(Clone, Debug)]
pub enum RecvErr {
    /// connection closed (EOF) before a complete response; bytes received so far
    Closed(Vec<u8>),
    /// reset
    Reset(Vec<u8>),
    /// nothing (more) arrived before the deadline
    Timeout(Vec<u8>),
    /// what arrived is not a well-formed HTTP/1.1 response
    Malformed(String, Vec<u8>),
}

pub enum Parse {
    NeedMore,
    Done(Resp, usize),
    Bad(String),
}

fn is_token_char(b: u8) -> bool {
    matches!(b, b'!' | b'#' | b'$' | b'%' | b'&' | b'\'' | b'*' | b'+' | b'-' | b'.' | b'^' | b'_' | b'`' | b'|' | b'~' | b'0'..=b'9' | b'a'..=b'z' | b'A'..=b'Z')
}

pub fn find(hay: &[u8], needle: &[u8]) -> Option<usize> {
    hay.windows(needle.len()).position(|w| w == needle)
}

/// Parse one response from the front of `buf`. `head_req`: the request was HEAD.
/// `eof`: no more bytes will come (lets an undetermined-length body end).
pub fn parse_response(buf: &[u8], head_req: bool, eof: bool) -> Parse {
    let Some(head_end) = find(buf, b"\r\n\r\n") else {
        // sanity: a head larger than 1 MiB is not something our server produces
        if buf.len() > (1 << 20) {
            return Parse::Bad("response head exceeds 1 MiB without terminating".into());
        }
        return Parse::NeedMore;
    };
    let head = &buf[..head_end];
    let mut lines = head.split(|b| *b == b'\n').map(|l| l.strip_suffix(b"\r").unwrap_or(l));
    // (split on \n then strip \r: a bare \n inside the head is caught below as an invalid byte)
    let status_line = lines.next().unwrap_or(b"");
    if status_line.len() < 12 || &status_line[..9] != b"HTTP/1.1 " {
        return Parse::Bad(format!("bad status line: {:?}", String::from_utf8_lossy(status_line)));
    }
    let code = &status_line[9..12];
    if !code.iter().all(|b| b.is_ascii_digit()) {
        return Parse::Bad(format!("bad status code: {:?}", String::from_utf8_lossy(status_line)));
    }
    let status: u16 = std::str::from_utf8(code).unwrap().parse().unwrap();
    if status_line.len() > 12 && status_line[12] != b' ' {
        return Parse::Bad(format!("no space after status code: {:?}", String::from_utf8_lossy(status_line)));
    }
    let reason = String::from_utf8_lossy(status_line.get(13..).unwrap_or(b"")).into_owned();
    if status < 100 {
        return Parse::Bad("status below 100".into());
    }
    // raw check for bare LF / CR in the head
    {
        let mut i = 0;
        while i < head.len() {
            match head[i] {
                b'\r' => {
                    if head.get(i + 1) != Some(&b'\n') {
                        return Parse::Bad("bare CR in response head".into());
                    }
                    i += 2;
                    continue;
                }
                b'\n' => return Parse::Bad("bare LF in response head".into()),
                0 => return Parse::Bad("NUL in response head".into()),
                _ => {}
            }
            i += 1;
        }
    }
    let mut headers = Vec::new();
    for line in lines {
        let Some(colon) = line.iter().position(|b| *b == b':') else {
            return Parse::Bad(format!("header line without colon: {:?}", String::from_utf8_lossy(line)));
        };
        let name = &line[..colon];
        if name.is_empty() || !name.iter().all(|b| is_token_char(*b)) {
            return Parse::Bad(format!("invalid header name: {:?}", String::from_utf8_lossy(name)));
        }
        let mut v = &line[colon + 1..];
        while let Some((b' ' | b'\t', rest)) = v.split_first() {
            v = rest;
        }
        while let Some((b' ' | b'\t', rest)) = v.split_last() {
            v = rest;
        }
        headers.push((String::from_utf8_lossy(name).into_owned(), String::from_utf8_lossy(v).into_owned()));
    }
    let body_start = head_end + 4;
    let get = |n: &str| -> Vec<&str> { headers.iter().filter(|(k, _)| k.eq_ignore_ascii_case(n)).map(|(_, v)| v.as_str()).collect() };
    let no_body = head_req || (100..200).contains(&status) || status == 204 || status == 304;
    let te = get("transfer-encoding");
    let cl = get("content-length");
    let mk = |framing: Framing, body: Vec<u8>, total: usize| {
        Parse::Done(
            Resp { status, reason: reason.clone(), headers: headers.clone(), body, framing, raw: buf[..total].to_vec(), head_len: body_start, interim: 0 },
            total,
        )
    };
    if no_body {
        return mk(Framing::NoBody, Vec::new(), body_start);
    }
    if te.iter().any(|v| v.to_ascii_lowercase().contains("chunked")) {
        let mut pos = body_start;
        let mut body = Vec::new();
        let mut sizes = Vec::new();
        loop {
            let Some(le) = find(&buf[pos..], b"\r\n") else {
                return if eof { Parse::Bad("chunked body ends inside a chunk-size line".into()) } else { Parse::NeedMore };
            };
            let size_line = &buf[pos..pos + le];
            if size_line.is_empty() || !size_line.iter().all(|b| b.is_ascii_hexdigit()) {
                return Parse::Bad(format!("bad chunk-size line: {:?}", String::from_utf8_lossy(size_line)));
            }
            let Ok(size) = usize::from_str_radix(std::str::from_utf8(size_line).unwrap(), 16) else {
                return Parse::Bad("chunk size overflow".into());
            };
            pos += le + 2;
            if size == 0 {
                // no trailers expected: CRLF must follow
                if buf.len() < pos + 2 {
                    return if eof { Parse::Bad("chunked body ends before the final CRLF".into()) } else { Parse::NeedMore };
                }
                if &buf[pos..pos + 2] != b"\r\n" {
                    return Parse::Bad("last chunk not followed by CRLF".into());
                }
                pos += 2;
                sizes.push(0);
                return mk(Framing::Chunked(sizes), body, pos);
            }
            if buf.len() < pos + size + 2 {
                return if eof { Parse::Bad("chunked body truncated inside chunk data".into()) } else { Parse::NeedMore };
            }
            body.extend_from_slice(&buf[pos..pos + size]);
            if &buf[pos + size..pos + size + 2] != b"\r\n" {
                return Parse::Bad("chunk data not followed by CRLF".into());
            }
            sizes.push(size);
            pos += size + 2;
        }
    }
    if !cl.is_empty() {
        if cl.len() > 1 {
            return Parse::Bad(format!("{} Content-Length header lines", cl.len()));
        }
        let v = cl[0];
        if v.is_empty() || !v.bytes().all(|b| b.is_ascii_digit()) {
            return Parse::Bad(format!("non-numeric Content-Length {v:?}"));
        }
        let Ok(n) = v.parse::<usize>() else { return Parse::Bad("Content-Length overflow".into()) };
        if buf.len() < body_start + n {
            return if eof { Parse::Bad(format!("body shorter than Content-Length {n}: got {}", buf.len() - body_start)) } else { Parse::NeedMore };
        }
        return mk(Framing::Length(n), buf[body_start..body_start + n].to_vec(), body_start + n);
    }
    // no declared length
    if eof {
        return mk(Framing::Undetermined, buf[body_start..].to_vec(), buf.len());
    }
    Parse::NeedMore
}

// ---------------------------------------------------------------------------------------------

enum Either<A, B> {
    A(A),
    B(B),
}
struct Select2<'a, F: Future + Unpin> {
    f: F,
    s: &'a mut Sleep,
}
impl<F: Future + Unpin> Future for Select2<'_, F> {
    type Output = Either<F::Output, ()>;
    fn poll(self: Pin<&mut Self>, cx: &mut Context<'_>) -> Poll<Self::Output> {
        let me = self.get_mut();
        if let Poll::Ready(v) = Pin::new(&mut me.f).poll(cx) {
            return Poll::Ready(Either::A(v));
        }
        if let Poll::Ready(()) = Pin::new(&mut *me.s).poll(cx) {
            return Poll::Ready(Either::B(()));
        }
        Poll::Pending
    }
}

pub struct Client {
    pub ep: Endpoint,
    /// received but not yet attributed to a response
    pub buf: Vec<u8>,
    /// everything ever received
    pub received: Vec<u8>,
    pub eof: bool,
    pub reset: bool,
    /// fault: once `received` has reached this many bytes the paced reader stops reading for this long, once
    pub stall: Option<(usize, Ns)>,
}

pub enum ReadOutcome {
    Data(usize),
    Eof,
    Reset,
    Timeout,
}

impl Client {
    pub async fn connect(addr: &str, cfg: ConnCfg) -> io::Result<Client> {
        let ep = connect(addr, cfg).await?;
        Ok(Client { ep, buf: Vec::new(), received: Vec::new(), eof: false, reset: false, stall: None })
    }
    /// connect without waiting for the server's accept (as a kernel backlog would)
    pub fn connect_now(addr: &str, cfg: ConnCfg) -> Client {
        let ep = connect(addr, cfg).immediate();
        Client { ep, buf: Vec::new(), received: Vec::new(), eof: false, reset: false, stall: None }
    }
    pub fn conn(&self) -> usize {
        self.ep.conn
    }
    pub fn send(&self, bytes: &[u8], delay: Ns) {
        self.ep.send(Seg::Data(bytes.to_vec()), delay);
    }
    pub fn send_fin(&self, delay: Ns) {
        self.ep.send(Seg::Fin, delay);
    }
    pub fn send_rst(&self, kind: io::ErrorKind, delay: Ns) {
        self.ep.send(Seg::Rst(kind), delay);
    }

    /// read more bytes into buf, at most `max` at a time, waiting at most `timeout`
    pub async fn fill(&mut self, max: usize, timeout: Ns) -> ReadOutcome {
        if self.eof {
            return ReadOutcome::Eof;
        }
        if self.reset {
            return ReadOutcome::Reset;
        }
        let mut tmp = vec![0u8; max.max(1)];
        let mut s = sleep(timeout);
        let r = Select2 { f: self.ep.read(&mut tmp), s: &mut s }.await;
        match r {
            Either::A(Ok(0)) => {
                self.eof = true;
                ReadOutcome::Eof
            }
            Either::A(Ok(n)) => {
                self.buf.extend_from_slice(&tmp[..n]);
                self.received.extend_from_slice(&tmp[..n]);
                ReadOutcome::Data(n)
            }
            Either::A(Err(_)) => {
                self.reset = true;
                ReadOutcome::Reset
            }
            Either::B(()) => ReadOutcome::Timeout,
        }
    }

    /// receive one response; `timeout` bounds every wait for more bytes
    pub async fn recv(&mut self, head_req: bool, timeout: Ns) -> Result<Resp, RecvErr> {
        self.recv_paced(head_req, timeout, 1 << 16, 0).await
    }

    /// like recv, reading at most `max` bytes at a time and pausing `pause` between reads (slow reader)
    pub async fn recv_paced(&mut self, head_req: bool, timeout: Ns, max: usize, pause: Ns) -> Result<Resp, RecvErr> {
        let mut interim = 0u32;
        loop {
            match parse_response(&self.buf, head_req, self.eof) {
                Parse::Done(mut r, used) => {
                    self.buf.drain(..used);
                    if (100..200).contains(&r.status) && r.status != 101 && interim < 8 {
                        interim += 1;
                        continue;
                    }
                    r.interim = interim;
                    return Ok(r);
                }
                Parse::Bad(m) => return Err(RecvErr::Malformed(m, self.buf.clone())),
                Parse::NeedMore => {}
            }
            if self.eof {
                return Err(RecvErr::Closed(self.buf.clone()));
            }
            match self.fill(max, timeout).await {
                ReadOutcome::Data(_) => {
                    if let Some((after, d)) = self.stall {
                        if self.received.len() >= after {
                            self.stall = None;
                            simcore::with(|w| w.count("fault.reader_stalled_for_seconds"));
                            sleep(d).await;
                        }
                    }
                    if pause > 0 {
                        sleep(pause).await;
                    }
                }
                ReadOutcome::Eof => {
                    // loop once more: an undetermined-length body ends here
                    if self.buf.is_empty() {
                        return Err(RecvErr::Closed(Vec::new()));
                    }
                }
                ReadOutcome::Reset => return Err(RecvErr::Reset(self.buf.clone())),
                ReadOutcome::Timeout => {
                    // an undetermined-length response that stopped arriving: report what is there
                    if let Parse::Done(r, used) = parse_response(&self.buf, head_req, true) {
                        if r.framing == Framing::Undetermined {
                            self.buf.drain(..used);
                            return Ok(r);
                        }
                    }
                    return Err(RecvErr::Timeout(self.buf.clone()));
                }
            }
        }
    }

    /// after the last expected response: does the server close, stay silent, or send more?
    pub async fn drain_until_close(&mut self, timeout: Ns) -> (bool, Vec<u8>) {
        let mut extra = std::mem::take(&mut self.buf);
        loop {
            match self.fill(1 << 16, timeout).await {
                ReadOutcome::Data(_) => extra.append(&mut self.buf),
                ReadOutcome::Eof | ReadOutcome::Reset => return (true, extra),
                ReadOutcome::Timeout => return (false, extra),
            }
        }
    }
}

pub const DEFAULT_TIMEOUT: Ns = 30 * SEC;
