//! Reference model of the supported request subset (DESIGN.md A.1): a request description, its wire
//! bytes, and what fangs/handlers must observe. Independent of ohkami's parser.

use crate::client::hex;
use crate::rt::t;
use serde::{Deserialize, Serialize};

pub const METHODS: [&str; 7] = ["GET", "PUT", "POST", "PATCH", "DELETE", "HEAD", "OPTIONS"];

pub const STD_REQ_HEADERS: [&str; 46] = [
    "Accept", "Accept-Encoding", "Accept-Language", "Access-Control-Request-Headers", "Access-Control-Request-Method", "Authorization", "Cache-Control", "Connection", "Content-Disposition",
    "Content-Encoding", "Content-Language", "Content-Length", "Content-Location", "Content-Type", "Cookie", "Date", "Expect", "Forwarded", "From", "Host", "If-Match", "If-Modified-Since",
    "If-None-Match", "If-Range", "If-Unmodified-Since", "Link", "Max-Forwards", "Origin", "Proxy-Authorization", "Range", "Referer", "Sec-Fetch-Dest", "Sec-Fetch-Mode", "Sec-Fetch-Site",
    "Sec-Fetch-User", "Sec-WebSocket-Extensions", "Sec-WebSocket-Key", "Sec-WebSocket-Protocol", "Sec-WebSocket-Version", "TE", "Trailer", "Transfer-Encoding", "User-Agent", "Upgrade",
    "Upgrade-Insecure-Requests", "Via",
];

pub fn is_std_header(name: &str) -> bool {
    STD_REQ_HEADERS.iter().any(|s| s.eq_ignore_ascii_case(name))
}

#[derive(Clone, Debug, Serialize, Deserialize, PartialEq)]
pub struct ReqSpec {
    pub method: String,
    /// raw target path as sent (starts with '/')
    pub path: String,
    /// raw query (without '?'), None = no '?'
    pub query: Option<String>,
    /// header lines in wire order: (name as sent, value bytes)
    pub headers: Vec<(String, Vec<u8>)>,
    /// body bytes; Some => a Content-Length header line is emitted at `cl_pos` with spelling `cl_name`
    pub body: Option<Vec<u8>>,
    pub cl_name: String,
    pub cl_pos: usize,
}

pub fn percent_decode(s: &[u8]) -> Vec<u8> {
    let mut out = Vec::with_capacity(s.len());
    let mut i = 0;
    while i < s.len() {
        if s[i] == b'%' && i + 3 <= s.len() {
            let h = std::str::from_utf8(&s[i + 1..i + 3]).ok().and_then(|x| u8::from_str_radix(x, 16).ok());
            if let Some(b) = h {
                out.push(b);
                i += 3;
                continue;
            }
        }
        out.push(s[i]);
        i += 1;
    }
    out
}

impl ReqSpec {
    pub fn head_bytes(&self) -> Vec<u8> {
        let mut v = Vec::new();
        v.extend_from_slice(self.method.as_bytes());
        v.push(b' ');
        v.extend_from_slice(self.path.as_bytes());
        if let Some(q) = &self.query {
            v.push(b'?');
            v.extend_from_slice(q.as_bytes());
        }
        v.extend_from_slice(b" HTTP/1.1\r\n");
        let mut lines: Vec<(String, Vec<u8>)> = self.headers.clone();
        if let Some(b) = &self.body {
            let pos = self.cl_pos.min(lines.len());
            lines.insert(pos, (self.cl_name.clone(), b.len().to_string().into_bytes()));
        }
        for (n, val) in &lines {
            v.extend_from_slice(n.as_bytes());
            v.extend_from_slice(b": ");
            v.extend_from_slice(val);
            v.extend_from_slice(b"\r\n");
        }
        v.extend_from_slice(b"\r\n");
        v
    }
    pub fn to_bytes(&self) -> Vec<u8> {
        let mut v = self.head_bytes();
        if let Some(b) = &self.body {
            v.extend_from_slice(b);
        }
        v
    }
    pub fn is_head(&self) -> bool {
        self.method == "HEAD"
    }

    /// the path handlers must see: one trailing slash dropped, percent-decoded
    pub fn expected_path(&self) -> Vec<u8> {
        let mut p = self.path.as_bytes();
        if p.len() > 1 && p.ends_with(b"/") {
            p = &p[..p.len() - 1];
        }
        percent_decode(p)
    }
    pub fn expected_query(&self) -> Vec<(Vec<u8>, Vec<u8>)> {
        match &self.query {
            None => vec![],
            Some(q) if q.is_empty() => vec![],
            Some(q) => q
                .split('&')
                .filter_map(|kv| {
                    let (k, v) = kv.split_once('=')?;
                    if k.is_empty() {
                        return None;
                    }
                    Some((percent_decode(k.as_bytes()), percent_decode(v.as_bytes())))
                })
                .collect(),
        }
    }
    /// lower-cased name -> values joined by ", " in order of appearance (Content-Length included)
    pub fn expected_headers(&self) -> Vec<(String, Vec<u8>)> {
        let mut lines: Vec<(String, Vec<u8>)> = self.headers.clone();
        if let Some(b) = &self.body {
            let pos = self.cl_pos.min(lines.len());
            lines.insert(pos, (self.cl_name.clone(), b.len().to_string().into_bytes()));
        }
        let mut out: Vec<(String, Vec<u8>)> = Vec::new();
        for (n, v) in lines {
            let ln = n.to_ascii_lowercase();
            match out.iter_mut().find(|(k, _)| *k == ln) {
                Some((_, cur)) => {
                    cur.extend_from_slice(b", ");
                    cur.extend_from_slice(&v);
                }
                None => out.push((ln, v)),
            }
        }
        out.sort();
        out
    }
    pub fn expected_payload(&self) -> Option<Vec<u8>> {
        match &self.body {
            Some(b) if !b.is_empty() => Some(b.clone()),
            _ => None,
        }
    }

    /// the dump the Dump fang must produce for this request (see dump.rs for the format)
    pub fn expected_dump(&self) -> Vec<String> {
        let mut lines = Vec::new();
        lines.push(format!("M {}", self.method));
        lines.push(format!("P {}", hex(&self.expected_path())));
        for (k, v) in self.expected_query() {
            lines.push(format!("Q {} {}", hex(&k), hex(&v)));
        }
        for (n, v) in self.expected_headers() {
            if is_std_header(&n) {
                lines.push(format!("H {} {}", n, hex(&v)));
                lines.push(format!("G {} {}", n, hex(&v)));
            } else {
                lines.push(format!("X {} {}", n, hex(&v)));
            }
        }
        match self.expected_payload() {
            Some(b) => lines.push(format!("B {}", hex(&b))),
            None => lines.push("B -".to_string()),
        }
        lines
    }
    /// lower-cased names of the non-standard headers (what the dump fang has to look up)
    pub fn custom_names(&self) -> Vec<String> {
        let mut v: Vec<String> = self.headers.iter().map(|(n, _)| n.to_ascii_lowercase()).filter(|n| !is_std_header(n)).collect();
        v.sort();
        v.dedup();
        v
    }
    pub fn std_names(&self) -> Vec<String> {
        let mut v: Vec<String> = self.expected_headers().into_iter().map(|(n, _)| n).filter(|n| is_std_header(n)).collect();
        v.sort();
        v.dedup();
        v
    }
}

// ---------------------------------------------------------------------------------------------
// generation

const SEG_CHARS: &[u8] = b"abcxyzABZ0189._-~";
const VALUE_CHARS: &[u8] = b"abcdefXYZ0123456789 ;=,/*.-_:()\"'!#$%&+<>?@[]^`{|}~";
const TOKEN_CHARS: &[u8] = b"abcdeXYZ019-_";

fn gen_segment() -> String {
    let mut s = t::string(SEG_CHARS, 1, 8);
    if t::chance(1, 6) {
        // a percent-escape of an ASCII or a multi-byte UTF-8 character (valid UTF-8 after decoding)
        let esc = t::pick(&["%41", "%7E", "%20", "%C3%A9", "%E4%B8%80", "%2B", "%25", "%2f"]);
        let at = t::range(0, s.len() as u64) as usize;
        s.insert_str(at, esc);
    }
    s
}

pub fn gen_path() -> String {
    let n = t::weighted(&[3, 4, 3, 2, 1]);
    if n == 0 {
        return "/".to_string();
    }
    let mut p = String::new();
    for _ in 0..n {
        p.push('/');
        p.push_str(&gen_segment());
    }
    if t::chance(1, 6) {
        p.push('/');
        // exactly one trailing slash is dropped by the documented normalisation; further ones are part of the path
        if t::chance(1, 4) {
            p.push_str(t::pick(&["/", "//"]));
        }
    }
    p
}

pub fn gen_query() -> Option<String> {
    if !t::chance(1, 3) {
        return None;
    }
    let n = t::range(1, 4);
    let mut parts = Vec::new();
    for _ in 0..n {
        let mut k = t::string(TOKEN_CHARS, 1, 6);
        let mut v = t::string(b"abcXYZ0129-_.~", 0, 10);
        if t::chance(1, 5) {
            v.push_str(t::pick(&["%20", "%26", "%3D", "%E4%B8%80", "%25", "%2B"]));
        }
        if t::chance(1, 10) {
            k.push_str("%5B%5D");
        }
        parts.push(format!("{k}={v}"));
    }
    Some(parts.join("&"))
}

thread_local! { pub static EMPTY_VALUES: std::cell::Cell<u32> = const { std::cell::Cell::new(0) }; }

pub fn gen_value() -> Vec<u8> {
    let mut v: Vec<u8> = match t::weighted(&[6, 2, 1]) {
        0 => t::string(VALUE_CHARS, 1, 24).into_bytes(),
        1 => {
            let mut s = t::string(VALUE_CHARS, 0, 10);
            s.push_str(t::pick(&["é", "日本", "ü", "€", "😀"]));
            s.push_str(&t::string(VALUE_CHARS, 0, 6));
            s.into_bytes()
        }
        _ => t::string(VALUE_CHARS, 30, 200).into_bytes(),
    };
    // no leading/trailing space (A.1)
    while v.first() == Some(&b' ') {
        v.remove(0);
    }
    while v.last() == Some(&b' ') {
        v.pop();
    }
    if v.is_empty() {
        v.push(b'v');
    }
    v
}

/// how header names are spelled in a request
#[derive(Clone, Copy, PartialEq, Debug)]
pub enum NameCase {
    /// standard names canonical or all-lowercase, custom names all-lowercase
    Plain,
    /// any letter case (upper, mixed) for standard and custom names
    Any,
}

fn spell(name: &str, case: NameCase, is_std: bool) -> String {
    match case {
        NameCase::Plain => {
            if is_std && t::chance(1, 2) {
                name.to_string()
            } else {
                name.to_ascii_lowercase()
            }
        }
        NameCase::Any => match t::draw(6) {
            0 => name.to_ascii_uppercase(),
            1 => {
                // first letter upper, rest lower: `Content-length`
                let l = name.to_ascii_lowercase();
                let mut c = l.chars();
                match c.next() {
                    Some(f) => f.to_ascii_uppercase().to_string() + c.as_str(),
                    None => l,
                }
            }
            2 => name.chars().enumerate().map(|(i, c)| if i % 2 == 0 { c.to_ascii_lowercase() } else { c.to_ascii_uppercase() }).collect(),
            3 => {
                // every dash-separated word capitalised, the rest lower-case (what Go's net/http sends): `Sec-Websocket-Key`, `Te`
                name.split('-')
                    .map(|w| {
                        let l = w.to_ascii_lowercase();
                        let mut c = l.chars();
                        match c.next() {
                            Some(f) => f.to_ascii_uppercase().to_string() + c.as_str(),
                            None => l,
                        }
                    })
                    .collect::<Vec<_>>()
                    .join("-")
            }
            4 => {
                // one letter of the canonical spelling flipped
                let mut b: Vec<char> = name.chars().collect();
                let i = crate::rt::t::draw(b.len() as u32) as usize;
                b[i] = if b[i].is_ascii_uppercase() { b[i].to_ascii_lowercase() } else { b[i].to_ascii_uppercase() };
                b.into_iter().collect()
            }
            _ => name.to_string(),
        },
    }
}

/// standard request headers generated freely in a (W) request: all of them except the three that change how the
/// message is framed or the session behaves (Content-Length is generated with the body, Transfer-Encoding is class G,
/// Connection is generated on purpose where a scenario wants it)
const FREE_STD: [&str; 43] = [
    "Accept", "Accept-Encoding", "Accept-Language", "Access-Control-Request-Headers", "Access-Control-Request-Method", "Authorization", "Cache-Control", "Content-Disposition", "Content-Encoding",
    "Content-Language", "Content-Location", "Content-Type", "Cookie", "Date", "Expect", "Forwarded", "From", "Host", "If-Match", "If-Modified-Since", "If-None-Match", "If-Range",
    "If-Unmodified-Since", "Link", "Max-Forwards", "Origin", "Proxy-Authorization", "Range", "Referer", "Sec-Fetch-Dest", "Sec-Fetch-Mode", "Sec-Fetch-Site", "Sec-Fetch-User",
    "Sec-WebSocket-Extensions", "Sec-WebSocket-Key", "Sec-WebSocket-Protocol", "Sec-WebSocket-Version", "TE", "Trailer", "User-Agent", "Upgrade", "Upgrade-Insecure-Requests", "Via",
];
const CUSTOM: [&str; 8] = ["X-Request-Id", "X-Trace", "X-A", "Foo", "X-Forwarded-For", "Dnt", "X-Custom-Header-With-A-Long-Name", "Priority"];

pub struct GenOpts {
    pub name_case: NameCase,
    pub max_headers: usize,
    pub allow_body: bool,
    pub max_body: usize,
    /// first body byte may be NUL
    pub allow_leading_nul: bool,
    /// allow repeated header names
    pub allow_repeats: bool,
    /// allow zero custom headers next to standard ones (the `get()` accessor path)
    pub connection_header: bool,
}

pub fn gen_request(o: &GenOpts) -> ReqSpec {
    let method = t::pick(&METHODS).to_string();
    let path = gen_path();
    let query = gen_query();
    let n = t::range(0, o.max_headers as u64) as usize;
    let mut headers: Vec<(String, Vec<u8>)> = Vec::new();
    for _ in 0..n {
        let (name, is_std) = if t::chance(1, 3) { (t::pick(&CUSTOM), false) } else { (t::pick(&FREE_STD), true) };
        if name.eq_ignore_ascii_case("cookie") && headers.iter().any(|(n, _)| n.eq_ignore_ascii_case("cookie")) {
            continue;
        }
        if !o.allow_repeats && headers.iter().any(|(n, _)| n.eq_ignore_ascii_case(name)) {
            continue;
        }
        // a repeated name keeps one spelling per request only in Plain mode if custom (byte-exact map)
        let spelled = match headers.iter().find(|(n, _)| n.eq_ignore_ascii_case(name)) {
            Some((prev, _)) if o.name_case == NameCase::Plain => prev.clone(),
            _ => spell(name, o.name_case, is_std),
        };
        // (an address a proxy reports is a header value like any other: the peer of the connection stays what it is)
        let value = if name == "X-Forwarded-For" && t::chance(2, 3) { t::pick(&["203.0.113.7", "203.0.113.7, 10.0.0.2", "2001:db8::1", "unknown", "198.51.100.23,10.1.1.1"]).as_bytes().to_vec() } else { gen_value() };
        // (wave 16) `Name: ` with nothing behind the blank: an empty value is a value. Only for a name that is not repeated in
        // the request (what a list made of empty members looks like is nobody's business here), not for Cookie
        let unique = !headers.iter().any(|(n, _)| n.eq_ignore_ascii_case(name));
        let value = if unique && !name.eq_ignore_ascii_case("cookie") && name != "X-Forwarded-For" && t::chance(1, 14) { EMPTY_VALUES.with(|e| e.set(e.get() + 1)); Vec::new() } else { value };
        headers.push((spelled, value));
    }
    // an emptied header must stay unique
    {
        let mut seen: Vec<String> = Vec::new();
        let mut drop_idx: Vec<usize> = Vec::new();
        for (i, (n, _)) in headers.iter().enumerate() {
            let l = n.to_ascii_lowercase();
            if headers.iter().any(|(n2, v2)| n2.eq_ignore_ascii_case(n) && v2.is_empty()) && seen.contains(&l) {
                drop_idx.push(i);
            }
            seen.push(l);
        }
        for i in drop_idx.into_iter().rev() {
            headers.remove(i);
        }
    }
    if o.connection_header && t::chance(1, 8) {
        headers.push((spell("Connection", o.name_case, true), b"keep-alive".to_vec()));
    }
    let body = if o.allow_body && t::chance(1, 2) {
        let len = t::len_near(&[1, 512, 900, 1024, 1100, 2048], o.max_body);
        let mut b: Vec<u8> = match t::weighted(&[3, 2, 2, 2]) {
            0 => (0..len).map(|i| b"abcdefghij"[i % 10]).collect(),
            1 => (0..len).map(|_| t::draw(256) as u8).collect(),
            2 => (0..len).map(|i| if i % 7 == 3 { 0 } else { b'A' + (i % 26) as u8 }).collect(),
            _ => {
                // a body that looks like the end of a head / like a whole request, behind a NUL byte or not
                // (what a stale buffer or a mis-attributed byte would turn into a request of its own)
                let mut v: Vec<u8> = (0..len.min(40)).map(|i| b"0123456789"[i % 10]).collect();
                if t::chance(1, 2) {
                    v.push(0);
                }
                v.extend_from_slice(t::pick(&[&b"\r\n\r\n"[..], b"\r\n\r\nGET /s/fixed HTTP/1.1\r\nx-marker: smuggled\r\n\r\n", b"\n\nPOST /p/evil HTTP/1.1\r\nContent-Length: 3\r\n\r\nabc", b"\r\n\r\n\0\r\n\r\n"]));
                v.extend((0..t::draw(30)).map(|i| b'a' + (i % 26) as u8));
                v
            }
        };
        if !b.is_empty() {
            if o.allow_leading_nul && t::chance(1, 8) {
                b[0] = 0;
            } else if b[0] == 0 && !o.allow_leading_nul {
                b[0] = b'z';
            }
        }
        Some(b)
    } else {
        None
    };
    // (wave 17) `Expect: 100-continue` in front of a body: whatever a server makes of it (the tree ignores it) must not depend
    // on how much of the body came with the head
    if body.is_some() && !headers.iter().any(|(n, _)| n.eq_ignore_ascii_case("expect")) && t::chance(1, 10) {
        headers.push((spell("Expect", o.name_case, true), b"100-continue".to_vec()));
    }
    let cl_name = spell("Content-Length", o.name_case, true);
    let cl_pos = t::range(0, headers.len() as u64) as usize;
    ReqSpec { method, path, query, headers, body, cl_name, cl_pos }
}

/// Sometimes pad a request with one more header so that its head is exactly 1020..1024 bytes long: the last sizes
/// that still fit ohkami's 1 KiB head buffer (a head of exactly 1024 bytes is complete and must be served).
pub fn maybe_pad_to_buffer_edge(spec: &mut ReqSpec) {
    if !t::chance(1, 12) {
        return;
    }
    let target = 1024 - t::pick(&[0usize, 0, 1, 2, 4]);
    let cur = spec.head_bytes().len();
    // "x-pad: " + value + CRLF = 9 + value
    if cur + 10 > target {
        return;
    }
    let n = target - cur - 9;
    spec.headers.push(("x-pad".into(), vec![b'p'; n]));
    debug_assert_eq!(spec.head_bytes().len(), target);
}
