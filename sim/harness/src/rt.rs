//! Per-run plumbing: world installation, repo hooks, tape helpers, outcome types.

use serde::{Deserialize, Serialize};
use simcore::{with, Tape, World};
use std::cell::RefCell;
use std::collections::{BTreeMap, BTreeSet};

pub mod t {
    //! tape helpers (0 is always the simplest choice)
    use simcore::with;
    pub fn draw(n: u32) -> u32 {
        with(|w| w.tape.draw(n))
    }
    pub fn chance(num: u32, den: u32) -> bool {
        with(|w| w.tape.chance(num, den))
    }
    pub fn range(lo: u64, hi: u64) -> u64 {
        with(|w| w.tape.range(lo, hi))
    }
    pub fn pick<T: Clone>(items: &[T]) -> T {
        with(|w| w.tape.pick(items).clone())
    }
    pub fn weighted(ws: &[u32]) -> usize {
        with(|w| w.tape.weighted(ws))
    }
    pub fn string(alphabet: &[u8], lo: usize, hi: usize) -> String {
        let n = range(lo as u64, hi as u64) as usize;
        (0..n).map(|_| alphabet[draw(alphabet.len() as u32) as usize] as char).collect()
    }
    pub fn bytes(lo: usize, hi: usize) -> Vec<u8> {
        let n = range(lo as u64, hi as u64) as usize;
        (0..n).map(|_| draw(256) as u8).collect()
    }
    /// length biased to small values and to neighbourhoods of `marks`
    pub fn len_near(marks: &[usize], max: usize) -> usize {
        match weighted(&[4, 3, 3]) {
            0 => range(0, 16.min(max as u64)) as usize,
            1 => {
                let m = pick(marks) as i64;
                let d = range(0, 6) as i64 - 3;
                (m + d).clamp(0, max as i64) as usize
            }
            _ => range(0, max as u64) as usize,
        }
    }
    pub fn shuffle<T>(v: &mut [T]) {
        for i in (1..v.len()).rev() {
            let j = draw(i as u32 + 1) as usize;
            // 0 keeps... make 0 the identity: swap with i - j
            v.swap(i, i - j);
        }
    }
}

#[derive(Clone, Debug, Serialize, Deserialize, PartialEq)]
pub enum Verdict {
    Ok,
    /// configuration rejected by the generator/model (not counted)
    Discard,
    Inconclusive(String),
    Violation { rule: String, manifestation: String, message: String },
}

#[derive(Clone, Debug, Serialize, Deserialize)]
pub struct Outcome {
    pub verdict: Verdict,
    /// hazard classes present in the generated scenario
    pub hazards: Vec<String>,
    pub nontrivial: bool,
    pub scenario_hash: u64,
    pub probes: BTreeMap<String, u64>,
    /// human-readable decoded scenario (always produced; cheap)
    pub scenario: serde_json::Value,
    /// number of hazard-guard re-draws, per finding id
    pub redraws: BTreeMap<String, u64>,
    /// property-specific state measure items reached (e.g. C18 interleaving classes)
    pub states: Vec<String>,
}

impl Outcome {
    pub fn new() -> Self {
        Outcome {
            verdict: Verdict::Ok,
            hazards: Vec::new(),
            nontrivial: false,
            scenario_hash: 0,
            probes: BTreeMap::new(),
            scenario: serde_json::Value::Null,
            redraws: BTreeMap::new(),
            states: Vec::new(),
        }
    }
    pub fn probe(&mut self, name: &str) {
        *self.probes.entry(name.to_string()).or_insert(0) += 1;
    }
    pub fn probe_n(&mut self, name: &str, n: u64) {
        *self.probes.entry(name.to_string()).or_insert(0) += n;
    }
    pub fn hazard(&mut self, h: &str) {
        if !self.hazards.iter().any(|x| x == h) {
            self.hazards.push(h.to_string());
            self.hazards.sort();
        }
    }
    /// first violation wins (the most root-cause-proximal rule should be checked first)
    pub fn violate(&mut self, rule: &str, manifestation: impl Into<String>, message: impl Into<String>) {
        if !matches!(self.verdict, Verdict::Violation { .. }) {
            self.verdict = Verdict::Violation { rule: rule.to_string(), manifestation: manifestation.into(), message: message.into() };
        }
    }
    pub fn violated(&self) -> bool {
        matches!(self.verdict, Verdict::Violation { .. })
    }
    /// the message of the violation, if any
    pub fn detail(&self) -> String {
        match &self.verdict {
            Verdict::Violation { message, .. } => message.clone(),
            _ => String::new(),
        }
    }
    pub fn signature(&self, prop: &str) -> Option<String> {
        match &self.verdict {
            Verdict::Violation { rule, manifestation, .. } => Some(format!("{prop}/{rule}/{manifestation}")),
            _ => None,
        }
    }
}

/// what the child process reports for one run
#[derive(Clone, Debug, Serialize, Deserialize)]
pub struct RunRecord {
    pub prop: String,
    pub run: u64,
    pub outcome: Outcome,
    pub tape: Vec<u32>,
    /// how many tape values scenario generation consumed (the rest are schedule/fault decisions)
    pub gen_len: usize,
    pub trace_hash: u64,
    pub sched_hash: u64,
    pub steps: u64,
    pub sim_ns: u64,
    pub end: String,
    pub counters: BTreeMap<String, u64>,
    pub trace: Vec<String>,
}

/// per-run configuration handed to a scenario
#[derive(Clone, Debug, Default)]
pub struct RunCfg {
    /// hazard classes of findings whose status is "known": generators steer away from them ...
    pub guarded: BTreeSet<String>,
    /// ... except for this one (hazard pass)
    pub enter: Option<String>,
    pub thorough: bool,
    /// index of the run in its batch (enumerating generators use it; 0 in replays)
    pub run: u64,
}
impl RunCfg {
    pub fn avoid(&self, hazard: &str) -> bool {
        self.guarded.contains(hazard) && self.enter.as_deref() != Some(hazard)
    }
    pub fn entering(&self, hazard: &str) -> bool {
        self.enter.as_deref() == Some(hazard)
    }
}

thread_local! {
    pub static OVERRUNS: RefCell<Vec<(usize, usize, usize)>> = const { RefCell::new(Vec::new()) };
    pub static SCHED_CB: RefCell<Option<Box<dyn FnMut(&'static str)>>> = const { RefCell::new(None) };
}

fn hook_wall_clock() -> Option<u64> {
    if simcore::signal::on_signal_thread() {
        return None;
    }
    simcore::try_with(|w| w.wall_secs())
}
fn hook_overrun(len: usize, add: usize, cap: usize) {
    OVERRUNS.with(|o| o.borrow_mut().push((len, add, cap)));
}
fn hook_sched_point(name: &'static str) {
    if simcore::signal::sched_point_on_signal_thread(name) {
        return;
    }
    // executor thread: let the scenario decide whether the signal thread advances here
    let cb = SCHED_CB.with(|c| c.borrow_mut().take());
    if let Some(mut f) = cb {
        f(name);
        SCHED_CB.with(|c| *c.borrow_mut() = Some(f));
    }
}

pub fn start_world(tape: Tape, trace: bool) {
    let mut w = World::new(tape);
    w.trace_on = trace;
    simcore::install(w);
    OVERRUNS.with(|o| o.borrow_mut().clear());
    SCHED_CB.with(|c| *c.borrow_mut() = None);
    ohkami::__verif__::install_wall_clock(hook_wall_clock);
    ohkami::__verif__::install_overrun(hook_overrun);
    ohkami::__verif__::install_sched_point(hook_sched_point);
}

thread_local! {
    pub static GEN_LEN: std::cell::Cell<usize> = const { std::cell::Cell::new(0) };
}
/// scenario generation is finished: everything drawn from here on is a schedule/fault decision
pub fn mark_generated() {
    let p = simcore::with(|w| w.tape.position());
    GEN_LEN.with(|g| g.set(p));
}

pub fn take_overruns() -> Vec<(usize, usize, usize)> {
    OVERRUNS.with(|o| std::mem::take(&mut *o.borrow_mut()))
}

pub const ADDR: &str = "sim:80";

/// spawn the real `Ohkami::howl` as the server task
/// tuning knob: ohkami reads `OHKAMI_KEEPALIVE_TIMEOUT` once per process (a `LazyLock`); every run is its own forked
/// process, so a scenario may choose the value as long as it does so before the first session starts
pub fn set_keepalive_timeout(secs: u64) {
    std::env::set_var("OHKAMI_KEEPALIVE_TIMEOUT", secs.to_string());
    with(|w| w.count("knob.keepalive_timeout_raised"));
}

pub fn serve(o: ohkami::Ohkami) -> usize {
    let id = simcore::spawn_task("server", "server", async move {
        o.howl(ADDR).await;
    });
    // let it bind and park in accept before any client exists (a real server is started first)
    simcore::poll_task_now(id);
    id
}

/// panicked server-side tasks, without the one panic no property forbids (DESIGN.md 7.1 (s)): `write_all(..).expect(..)` /
/// `flush().expect(..)` in Response::send after the peer went away — the connection is dead anyway
pub fn serve_at(o: ohkami::Ohkami, addr: &'static str) -> usize {
    let id = simcore::spawn_task("server", "server", async move {
        o.howl(addr).await;
    });
    simcore::poll_task_now(id);
    id
}

pub fn panicked_tasks() -> Vec<(usize, String, String, u32, String)> {
    // no panic is excused any more: until defect #32 was repaired (`Response::send` panicked when the peer had gone away),
    // that one panic site was filtered here
    all_panicked_tasks()
}

pub fn all_panicked_tasks() -> Vec<(usize, String, String, u32, String)> {
    with(|w| {
        w.tasks
            .iter()
            .filter_map(|t| match &t.state {
                simcore::TaskState::Panicked { file, line, message } => Some((t.id, t.kind.to_string(), file.clone(), *line, message.clone())),
                _ => None,
            })
            .collect()
    })
}

/// strip the checkout prefix and line number so that signatures survive unrelated edits
pub fn panic_site(file: &str, message: &str) -> String {
    if message.starts_with("simulator: livelock") {
        // not a panic of the code under test: the executor stopped a task that never yielded (see simcore LIVELOCK_OPS)
        return "livelock-task-never-yields".to_string();
    }
    let f = file.rsplit_once("/ohkami/src/").map(|(_, b)| format!("ohkami/src/{b}")).unwrap_or_else(|| {
        file.rsplit_once("/ohkami_lib/src/").map(|(_, b)| format!("ohkami_lib/src/{b}")).unwrap_or_else(|| {
            // registry crates: keep crate dir + file
            let parts: Vec<&str> = file.rsplit('/').take(3).collect();
            parts.into_iter().rev().collect::<Vec<_>>().join("/")
        })
    });
    // keep the fixed part of the message: up to the first ':' or '{' (values follow), at most 48 chars
    let cut = message.find([':', '{']).unwrap_or(message.len());
    let mut m: String = message[..cut].trim().chars().take(48).collect();
    // numbers in messages (indices, lengths) vary with the input
    m = m.chars().map(|c| if c.is_ascii_digit() { '#' } else { c }).collect();
    while m.contains("##") {
        m = m.replace("##", "#");
    }
    format!("panic@{f}:{m}")
}

pub fn fnv64(data: &[u8]) -> u64 {
    let mut h: u64 = 0xcbf2_9ce4_8422_2325;
    for b in data {
        h ^= *b as u64;
        h = h.wrapping_mul(0x1000_0000_01b3);
    }
    h
}

pub mod hexser {
    //! serde helper: Vec<u8> as a hex string
    use serde::{Deserialize, Deserializer, Serializer};
    pub fn serialize<S: Serializer>(v: &Vec<u8>, s: S) -> Result<S::Ok, S::Error> {
        s.serialize_str(&crate::client::hex(v))
    }
    pub fn deserialize<'de, D: Deserializer<'de>>(d: D) -> Result<Vec<u8>, D::Error> {
        let s = String::deserialize(d)?;
        crate::client::unhex(&s).ok_or_else(|| serde::de::Error::custom("bad hex"))
    }
}
