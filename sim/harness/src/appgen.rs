//! Applications from run-time descriptions (hook K3), instrumented fangs and handlers, and the
//! reference models of routing (DESIGN.md A.3) and fang scope/order (A.4).

use ohkami::__verif__::{ByAnother, HandlerSet, Routing};
use ohkami::{Fang, FangProc, Ohkami, Request, Response, Route};
use serde::{Deserialize, Serialize};
use std::collections::BTreeMap;

// ---------------------------------------------------------------------------------------------
// descriptions

#[derive(Clone, Debug, Serialize, Deserialize, PartialEq)]
pub enum FangKind {
    /// hand-written Fang/FangProc
    Trace,
    /// a FangAction (fore/back)
    Action,
}

#[derive(Clone, Debug, Serialize, Deserialize, PartialEq)]
pub struct FangSpec {
    pub id: u32,
    pub kind: FangKind,
    /// yields to the scheduler on the way in / out (so that sessions overlap inside the fang)
    pub yields: bool,
}

#[derive(Clone, Debug, Serialize, Deserialize, PartialEq)]
pub struct HandlerSpec {
    pub id: u32,
    /// how many path params the handler declares (<= params of the full route)
    pub n_params: u8,
    pub local_fangs: Vec<FangSpec>,
}

#[derive(Clone, Debug, Serialize, Deserialize, PartialEq)]
pub enum Item {
    /// a route literal with handlers per method ("GET","PUT","POST","PATCH","DELETE")
    Routes { path: String, methods: BTreeMap<String, HandlerSpec> },
    Mount { prefix: String, app: AppSpec },
}

#[derive(Clone, Debug, Serialize, Deserialize, PartialEq)]
pub struct AppSpec {
    pub id: u32,
    pub fangs: Vec<FangSpec>,
    pub items: Vec<Item>,
}

// ---------------------------------------------------------------------------------------------
// instrumented fangs

#[derive(Clone, Default)]
pub struct TraceIn(pub Vec<u32>);

fn push_in(req: &mut Request, id: u32) {
    let mut v = req.context.get::<TraceIn>().cloned().unwrap_or_default();
    v.0.push(id);
    req.context.set(v);
}
fn render_in(req: &Request) -> String {
    req.context.get::<TraceIn>().map(|v| v.0.iter().map(|i| i.to_string()).collect::<Vec<_>>().join(",")).unwrap_or_default()
}
fn stop_requested(req: &Request, id: u32) -> bool {
    req.headers.get("x-stop").map(|v| v == id.to_string()).unwrap_or(false)
}
fn mark_out(res: &mut Response, id: u32, inbound: Option<String>) {
    // the innermost point that sees the response records the inbound trace
    if let Some(i) = inbound {
        if res.headers.get("X-In").is_none() {
            res.headers.set().x("X-In", format!("[{i}]"));
        }
    }
    res.headers.set().x("X-Out", ohkami::header::append(id.to_string()));
}

#[derive(Clone)]
pub struct TraceAct {
    id: u32,
    yields: bool,
}
impl ohkami::fang::FangAction for TraceAct {
    fn fore<'a>(&'a self, req: &'a mut Request) -> impl std::future::Future<Output = Result<(), Response>> + Send {
        let (id, yields) = (self.id, self.yields);
        push_in(req, id);
        let stop = stop_requested(req, id);
        let inbound = render_in(req);
        async move {
            if yields {
                tokio::task::yield_now().await;
            }
            if stop {
                let mut res = Response::new(ohkami::Status::Im_a_teapot).with_text(format!("stopped by {id}"));
                res.headers.set().x("X-In", format!("[{inbound}]"));
                // a FangAction that answers early does not get its own `back`
                res.headers.set().x("X-Out", ohkami::header::append(id.to_string()));
                return Err(res);
            }
            Ok(())
        }
    }
    fn back<'a>(&'a self, res: &'a mut Response) -> impl std::future::Future<Output = ()> + Send {
        let (id, yields) = (self.id, self.yields);
        // (a FangAction has no access to the request on the way out: the inbound trace is recorded by
        //  whoever is further in; if nobody is, `X-In-Missing` tells)
        if res.headers.get("X-In").is_none() {
            res.headers.set().x("X-In-By-Action", id.to_string());
        }
        res.headers.set().x("X-Out", ohkami::header::append(id.to_string()));
        async move {
            if yields {
                tokio::task::yield_now().await;
            }
        }
    }
}

pub struct DynFang(pub FangSpec);
pub enum DynProc<I: FangProc> {
    Trace { id: u32, yields: bool, inner: I },
    Action(<TraceAct as Fang<I>>::Proc),
}
impl<I: FangProc> Fang<I> for DynFang {
    type Proc = DynProc<I>;
    fn chain(&self, inner: I) -> DynProc<I> {
        match self.0.kind {
            FangKind::Trace => DynProc::Trace { id: self.0.id, yields: self.0.yields, inner },
            FangKind::Action => DynProc::Action(<TraceAct as Fang<I>>::chain(&TraceAct { id: self.0.id, yields: self.0.yields }, inner)),
        }
    }
}
impl<I: FangProc> FangProc for DynProc<I> {
    async fn bite<'b>(&'b self, req: &'b mut Request) -> Response {
        match self {
            DynProc::Action(p) => p.bite(req).await,
            DynProc::Trace { id, yields, inner } => {
                let (id, yields) = (*id, *yields);
                push_in(req, id);
                if yields {
                    tokio::task::yield_now().await;
                }
                if stop_requested(req, id) {
                    let mut res = Response::new(ohkami::Status::Im_a_teapot).with_text(format!("stopped by {id}"));
                    mark_out(&mut res, id, Some(render_in(req)));
                    return res;
                }
                let mut res = inner.bite(req).await;
                if yields {
                    tokio::time::sleep(std::time::Duration::from_millis(1)).await;
                }
                mark_out(&mut res, id, Some(render_in(req)));
                res
            }
        }
    }
}

// ---------------------------------------------------------------------------------------------
// handlers

fn handler_response(id: u32, params: &[&str], req: &Request) -> Response {
    // (wave 18, C14) handlers whose id is 3 mod 5 panic: whatever answers in their place is a response like any other
    if PANICKING.with(|e| e.get()) && id % 5 == 3 {
        panic!("scripted handler panic (handler {id})");
    }
    let status = if ERRORING.with(|e| e.get()) && id % 4 == 0 { ohkami::Status::InternalServerError } else { ohkami::Status::OK };
    let mut res = Response::new(status).with_text(format!("h{id}|{}", params.join("|")));
    res.headers.set().x("X-Handler", id.to_string()).x("X-In", format!("[{}]", render_in(req)));
    // (wave 17, C14) handlers whose id is 1 mod 3 state an origin of their own (the policy's, when PRESET_ORIGIN holds it):
    // the policy has the last word on every response all the same
    if id % 3 == 1 {
        if let Some(o) = PRESET_ORIGIN.with(|p| p.borrow().clone()) {
            res.headers.set().AccessControlAllowOrigin(o);
        }
    }
    res
}

macro_rules! with_locals {
    ($set:expr, $method:ident, $locals:expr, $h:expr) => {{
        let l: &Vec<FangSpec> = $locals;
        match l.len() {
            0 => $set.$method($h),
            1 => $set.$method((DynFang(l[0].clone()), $h)),
            2 => $set.$method((DynFang(l[0].clone()), DynFang(l[1].clone()), $h)),
            3 => $set.$method((DynFang(l[0].clone()), DynFang(l[1].clone()), DynFang(l[2].clone()), $h)),
            _ => $set.$method((DynFang(l[0].clone()), DynFang(l[1].clone()), DynFang(l[2].clone()), DynFang(l[3].clone()), $h)),
        }
    }};
}

macro_rules! add_method {
    ($set:expr, $method:ident, $spec:expr) => {{
        let spec: &HandlerSpec = $spec;
        let id = spec.id;
        match spec.n_params {
            0 => with_locals!($set, $method, &spec.local_fangs, move |req: &Request| {
                let r = handler_response(id, &[], req);
                async move { r }
            }),
            1 => with_locals!($set, $method, &spec.local_fangs, move |p: String, req: &Request| {
                let r = handler_response(id, &[&p], req);
                async move { r }
            }),
            _ => with_locals!($set, $method, &spec.local_fangs, move |(p, q): (String, String), req: &Request| {
                let r = handler_response(id, &[&p, &q], req);
                async move { r }
            }),
        }
    }};
}

enum Built {
    H(HandlerSet),
    B(ByAnother),
}
pub struct Items(Vec<Built>);
impl Items {
    /// any number of handler sets (ohkami's tuple impls stop at a fixed arity)
    pub fn from_sets(sets: Vec<HandlerSet>) -> Self {
        Items(sets.into_iter().map(Built::H).collect())
    }
}
impl Routing<()> for Items {
    fn apply(self, target: &mut Ohkami) {
        for b in self.0 {
            // the same calls, in the same order, as ohkami's tuple impls
            match b {
                Built::H(h) => <HandlerSet as Routing<()>>::apply(h, target),
                Built::B(b) => <ByAnother as Routing<()>>::apply(b, target),
            }
        }
    }
}

fn leak(s: &str) -> &'static str {
    Box::leak(s.to_string().into_boxed_str())
}

thread_local! {
    /// C14: handlers whose id is a multiple of 4 answer 500 (an erroring handler)
    pub static ERRORING: std::cell::Cell<bool> = const { std::cell::Cell::new(false) };
    /// C14: handlers whose id is 3 mod 5 panic
    pub static PANICKING: std::cell::Cell<bool> = const { std::cell::Cell::new(false) };
    /// C14: what some handlers put into `Access-Control-Allow-Origin` themselves (None: they do not)
    pub static PRESET_ORIGIN: std::cell::RefCell<Option<String>> = const { std::cell::RefCell::new(None) };
}

/// like `build`, with `root_fangs` as the fangs of the outermost application (its own `fangs` must be empty)
pub fn build_root_with(app: &AppSpec, root_fangs: impl ohkami::fang::Fangs + 'static) -> Ohkami {
    assert!(app.fangs.is_empty());
    Ohkami::with(root_fangs, build_items(app))
}

pub fn build(app: &AppSpec) -> Ohkami {
    let items = build_items(app);
    let f = |i: usize| DynFang(app.fangs[i].clone());
    match app.fangs.len() {
        0 => Ohkami::new(items),
        1 => Ohkami::with((f(0),), items),
        2 => Ohkami::with((f(0), f(1)), items),
        3 => Ohkami::with((f(0), f(1), f(2)), items),
        4 => Ohkami::with((f(0), f(1), f(2), f(3)), items),
        5 => Ohkami::with((f(0), f(1), f(2), f(3), f(4)), items),
        6 => Ohkami::with((f(0), f(1), f(2), f(3), f(4), f(5)), items),
        7 => Ohkami::with((f(0), f(1), f(2), f(3), f(4), f(5), f(6)), items),
        _ => Ohkami::with((f(0), f(1), f(2), f(3), f(4), f(5), f(6), f(7)), items),
    }
}

fn build_items(app: &AppSpec) -> Items {
    let mut items = Vec::new();
    for it in &app.items {
        match it {
            Item::Routes { path, methods } => {
                let lit = leak(path);
                let mut set: Option<HandlerSet> = None;
                for (m, spec) in methods {
                    let cur = set.take();
                    set = Some(match (m.as_str(), cur) {
                        ("GET", None) => add_method!(lit, GET, spec),
                        ("PUT", None) => add_method!(lit, PUT, spec),
                        ("POST", None) => add_method!(lit, POST, spec),
                        ("PATCH", None) => add_method!(lit, PATCH, spec),
                        ("DELETE", None) => add_method!(lit, DELETE, spec),
                        ("GET", Some(s)) => add_method!(s, GET, spec),
                        ("PUT", Some(s)) => add_method!(s, PUT, spec),
                        ("POST", Some(s)) => add_method!(s, POST, spec),
                        ("PATCH", Some(s)) => add_method!(s, PATCH, spec),
                        ("DELETE", Some(s)) => add_method!(s, DELETE, spec),
                        (other, _) => panic!("unknown method {other}"),
                    });
                }
                if let Some(s) = set {
                    items.push(Built::H(s));
                }
            }
            Item::Mount { prefix, app } => {
                items.push(Built::B(leak(prefix).By(build(app))));
            }
        }
    }
    Items(items)
}

// ---------------------------------------------------------------------------------------------
// reference models

#[derive(Clone, Debug, PartialEq)]
pub enum Seg {
    Static(String),
    Param,
}

pub fn parse_route(lit: &str) -> Vec<Seg> {
    if lit == "/" {
        return vec![];
    }
    lit.split('/').skip(1).map(|s| if s.starts_with(':') { Seg::Param } else { Seg::Static(s.to_string()) }).collect()
}

#[derive(Clone, Debug)]
pub struct RouteEntry {
    pub segs: Vec<Seg>,
    pub literal: String,
    /// method -> handler
    pub methods: BTreeMap<String, HandlerSpec>,
    /// ids of the applications from the root down to the one that registered it
    pub apps: Vec<u32>,
}
#[derive(Clone, Debug)]
pub struct MountEntry {
    pub prefix: Vec<Seg>,
    pub app: u32,
    pub fangs: Vec<FangSpec>,
    pub parent: Option<u32>,
}

pub struct Table {
    pub routes: Vec<RouteEntry>,
    /// every application with its full prefix (the root has the empty prefix)
    pub apps: Vec<MountEntry>,
}

pub fn table(root: &AppSpec) -> Table {
    let mut t = Table { routes: Vec::new(), apps: Vec::new() };
    fn walk(app: &AppSpec, prefix: &[Seg], chain: &[u32], parent: Option<u32>, t: &mut Table) {
        let mut chain = chain.to_vec();
        chain.push(app.id);
        t.apps.push(MountEntry { prefix: prefix.to_vec(), app: app.id, fangs: app.fangs.clone(), parent });
        for it in &app.items {
            match it {
                Item::Routes { path, methods } => {
                    let mut segs = prefix.to_vec();
                    segs.extend(parse_route(path));
                    let literal = format!("/{}", segs.iter().map(|s| match s { Seg::Static(x) => x.clone(), Seg::Param => ":p".into() }).collect::<Vec<_>>().join("/"));
                    // the same full route may be registered in several pieces (different methods)
                    // ... also by several applications when none of them has fangs (then there is one route table and no scope)
                    let fangless = t.apps.iter().all(|a| a.fangs.is_empty());
                    if let Some(e) = t.routes.iter_mut().find(|e| e.segs == segs && (e.apps == chain || fangless)) {
                        e.methods.extend(methods.clone());
                    } else {
                        t.routes.push(RouteEntry { segs, literal, methods: methods.clone(), apps: chain.clone() });
                    }
                }
                Item::Mount { prefix: p, app: child } => {
                    let mut pre = prefix.to_vec();
                    pre.extend(parse_route(p));
                    walk(child, &pre, &chain, Some(app.id), t);
                }
            }
        }
    }
    walk(root, &[], &[], None, &mut t);
    t
}

/// request path -> segments (one trailing slash dropped; "/" -> none). Raw bytes, no percent-decoding.
pub fn path_segments(raw: &str) -> Vec<String> {
    let mut p = raw;
    if p.len() > 1 && p.ends_with('/') {
        p = &p[..p.len() - 1];
    }
    if p == "/" || p.is_empty() {
        return vec![];
    }
    p.split('/').skip(1).map(|s| s.to_string()).collect()
}

fn seg_matches(s: &Seg, x: &str) -> bool {
    match s {
        Seg::Static(l) => l == x,
        Seg::Param => !x.is_empty(),
    }
}

/// greedy: at each position keep the candidates that match so far, prefer static if any matches
pub fn greedy<'a>(routes: &'a [RouteEntry], path: &[String]) -> Option<&'a RouteEntry> {
    let mut cands: Vec<&RouteEntry> = routes.iter().collect();
    for (i, x) in path.iter().enumerate() {
        let stat: Vec<&RouteEntry> = cands.iter().copied().filter(|r| matches!(r.segs.get(i), Some(Seg::Static(l)) if l == x)).collect();
        cands = if !stat.is_empty() { stat } else { cands.into_iter().filter(|r| matches!(r.segs.get(i), Some(Seg::Param)) && !x.is_empty()).collect() };
        if cands.is_empty() {
            return None;
        }
    }
    cands.into_iter().find(|r| r.segs.len() == path.len())
}

/// any match at all (depth-first, static before param)
pub fn backtrack<'a>(routes: &'a [RouteEntry], path: &[String]) -> Option<&'a RouteEntry> {
    let mut best: Option<(&RouteEntry, Vec<u8>)> = None;
    for r in routes {
        if r.segs.len() == path.len() && r.segs.iter().zip(path.iter()).all(|(s, x)| seg_matches(s, x)) {
            let key: Vec<u8> = r.segs.iter().map(|s| if matches!(s, Seg::Static(_)) { 0 } else { 1 }).collect();
            if best.as_ref().map(|(_, k)| key < *k).unwrap_or(true) {
                best = Some((r, key));
            }
        }
    }
    best.map(|(r, _)| r)
}

/// the raw segments at the param positions of `route`
pub fn captured(route: &RouteEntry, path: &[String]) -> Vec<String> {
    route.segs.iter().zip(path.iter()).filter(|(s, _)| matches!(s, Seg::Param)).map(|(_, x)| x.clone()).collect()
}

/// A(p): applications whose whole prefix matches the leading segments of the path, outermost first,
/// following static-before-param preference among sibling mounts
pub fn app_chain<'a>(t: &'a Table, path: &[String]) -> Vec<&'a MountEntry> {
    let mut chain: Vec<&MountEntry> = Vec::new();
    let root = t.apps.iter().find(|a| a.parent.is_none()).expect("root app");
    chain.push(root);
    loop {
        let cur = *chain.last().unwrap();
        let kids: Vec<&MountEntry> = t.apps.iter().filter(|a| a.parent == Some(cur.app)).collect();
        let mut matching: Vec<&MountEntry> = kids
            .into_iter()
            .filter(|k| k.prefix.len() <= path.len() && k.prefix.iter().zip(path.iter()).all(|(s, x)| seg_matches(s, x)))
            .collect();
        if matching.is_empty() {
            break;
        }
        // static preferred at the first differing position
        matching.sort_by_key(|k| k.prefix.iter().map(|s| if matches!(s, Seg::Static(_)) { 0u8 } else { 1 }).collect::<Vec<_>>());
        chain.push(matching[0]);
    }
    chain
}
