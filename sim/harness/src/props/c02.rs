//! C02 — HTTP/1.1 request bytes are parsed faithfully, malformed bytes are refused.
//! One connection whose first segment carries everything the client sends.

use super::PropInfo;
use crate::client::{Client, RecvErr, Resp, DEFAULT_TIMEOUT};
use crate::dump::{Dump, DUMP_CUSTOM, DUMP_GET_STD};
use crate::reqmodel::{gen_request, is_std_header, GenOpts, NameCase, ReqSpec};
use crate::rt::{self, t, Outcome, RunCfg};
use serde::{Deserialize, Serialize};
use serde_json::json;
use simcore::{ConnCfg, MS, SEC};
use std::cell::RefCell;
use std::rc::Rc;

pub const INFO: PropInfo = PropInfo {
    quick_runs: 100_000,
    thorough_runs: 3_000_000,
    rule: "each run = one generated request (well-formed W / malformed M / grey G, see DESIGN.md 5.C02) sent as the first segment of a fresh connection to the real server; \
           non-trivial = the server produced at least one complete response or closed the connection in reaction to the input; distinct = distinct hash of (class, mutation, wire bytes, close behaviour)",
    state_measure: "(class, mutation kind, outcome kind) triples reached",
    assumptions: &[
        "(W) heads are at most 1024 bytes — what fits the fixed 1 KiB buffer, an implementation limit the statement does not mention; longer heads are class G",
        "(W) header values contain no CR/LF/NUL and no leading/trailing space; query pairs have non-empty keys, contain '=' and no '+'",
        "the whole client input arrives as one segment and is read by one read (segmentation is C06's quantifier); a quarter of the well-formed requests additionally arrive cut in two, biased to the end of the head",
        "custom header names are looked up by handlers in lower case; standard ones through the typed accessors and get()",
    ],
    expected_probes: &["w.body_crosses_1024", "w.repeated_header", "m.fin_inside_head", "m.fin_inside_body", "g.complete_answered", "m.connection_error_inside_request", "w.head_at_buffer_edge", "w.two_segments"],
};

#[derive(Clone, Debug, Serialize, Deserialize)]
pub enum After {
    /// close the sending side `delay` after the data
    Fin(u64),
    /// nothing more is sent; the client just waits
    Silence,
    /// the connection fails `delay` after the data: the server's read returns an error of the given kind
    /// (0 ConnectionReset, 1 ConnectionAborted, 2 TimedOut, 3 BrokenPipe)
    Rst(u8, u64),
}

pub fn err_kind(i: u8) -> std::io::ErrorKind {
    match i {
        0 => std::io::ErrorKind::ConnectionReset,
        1 => std::io::ErrorKind::ConnectionAborted,
        2 => std::io::ErrorKind::TimedOut,
        _ => std::io::ErrorKind::BrokenPipe,
    }
}

#[derive(Clone, Debug, Serialize, Deserialize)]
pub struct Scenario {
    /// "W" | "M" | "G"
    pub class: String,
    pub kind: String,
    /// the well-formed request the input was derived from (the oracle's reference for class W)
    pub base: ReqSpec,
    #[serde(with = "crate::rt::hexser")]
    pub bytes: Vec<u8>,
    pub after: After,
    /// the bytes form a complete HTTP message (so the server has nothing to wait for)
    pub complete: bool,
    /// class W only: the bytes arrive as two segments, cut at this offset, the second one this many ms later
    #[serde(default)]
    pub cut: Option<(usize, u64)>,
}

#[derive(Default)]
struct Obs {
    result: Option<Result<Resp, RecvErr>>,
    closed_after: Option<bool>,
    extra: Vec<u8>,
}

pub const M_KINDS: [&str; 15] = [
    "trunc-fin", "trunc-silence", "no-second-space", "no-version", "bad-version", "no-colon", "cl-non-numeric", "cl-signed", "cl-overflow", "cl-conflicting", "bad-method-bytes", "nul-in-version",
    "short-body-fin", "trunc-rst", "short-body-rst",
];

fn gen_mutation_m(base: &ReqSpec, cfg: &RunCfg, out: &mut Outcome) -> (Vec<u8>, After, &'static str, bool) {
    // returns (bytes, after, kind, complete)
    let full = base.to_bytes();
    let head_len = base.head_bytes().len();
    let kinds: [&'static str; 15] = M_KINDS;
    let mut kind = t::pick(&kinds);
    for _ in 0..8 {
        if cfg.avoid(kind) {
            *out.redraws.entry(kind.to_string()).or_insert(0) += 1;
            kind = t::pick(&kinds);
        } else {
            break;
        }
    }
    if let Some(e) = &cfg.enter {
        if let Some(k) = kinds.iter().find(|k| **k == e.as_str()) {
            kind = k;
        }
    }
    let line_end = full.iter().position(|b| *b == b'\r').unwrap();
    let request_line = full[..line_end].to_vec();
    let rest = full[line_end..].to_vec();
    let fin_delay = || t::pick(&[0u64, MS, 50 * MS, SEC]);
    match kind {
        "trunc-fin" | "trunc-silence" | "trunc-rst" => {
            // cut strictly inside the head (the body case is short-body-fin)
            let k = 1 + t::draw((head_len - 1) as u32) as usize;
            let k = match t::draw(4) {
                0 => k,
                1 => (line_end / 2).max(1),                     // inside the request line
                2 => (line_end + 2 + t::draw(20) as usize).min(head_len - 1), // early in the headers
                _ => head_len - 1 - t::draw(4.min(head_len as u32 - 1)) as usize, // around the final CRLF
            }
            .clamp(1, head_len - 1);
            let after = if kind == "trunc-fin" { After::Fin(fin_delay()) } else if kind == "trunc-rst" { After::Rst(t::draw(4) as u8, fin_delay()) } else { After::Silence };
            (full[..k].to_vec(), after, kind, false)
        }
        "short-body-fin" | "short-body-rst" => {
            let mut b = base.clone();
            let body_len = 1 + t::len_near(&[1, 10, 1024], 3000);
            b.body = Some((0..body_len).map(|i| b'a' + (i % 26) as u8).collect());
            let bytes = b.to_bytes();
            let hl = b.head_bytes().len();
            let keep = t::draw(body_len as u32) as usize; // 0..body_len-1 bytes of body
            let after = if kind == "short-body-fin" { After::Fin(fin_delay()) } else { After::Rst(t::draw(4) as u8, fin_delay()) };
            (bytes[..hl + keep].to_vec(), after, kind, false)
        }
        "no-second-space" => {
            // "GET /pathHTTP/1.1"
            let s = String::from_utf8_lossy(&request_line).replacen(" HTTP/1.1", "HTTP/1.1", 1);
            let mut v = s.into_bytes();
            v.extend_from_slice(&rest);
            (v, After::Silence, kind, true)
        }
        "no-version" => {
            let s = String::from_utf8_lossy(&request_line).replacen(" HTTP/1.1", "", 1);
            let mut v = s.into_bytes();
            v.extend_from_slice(&rest);
            (v, After::Silence, kind, true)
        }
        "bad-version" => {
            let ver = t::pick(&["HTTP/2.7", "HTTP/1.12", "HTTQ/1.1", "http/1.1", "HTTP/1,1", "HTTP/11", "HTTP/", "XHTTP/1.1"]);
            let s = String::from_utf8_lossy(&request_line).replacen("HTTP/1.1", ver, 1);
            let mut v = s.into_bytes();
            v.extend_from_slice(&rest);
            (v, After::Silence, kind, true)
        }
        "no-colon" => {
            let mut b = base.clone();
            b.body = None;
            let mut v = b.head_bytes();
            v.truncate(v.len() - 2);
            v.extend_from_slice(t::pick(&[&b"Hostexample.com\r\n\r\n"[..], b"novalue\r\n\r\n", b"Host example.com\r\n\r\n"]));
            (v, After::Silence, kind, true)
        }
        "cl-non-numeric" | "cl-signed" | "cl-overflow" | "cl-conflicting" => {
            let mut b = base.clone();
            b.body = None;
            b.headers.retain(|(n, _)| !n.eq_ignore_ascii_case("content-length"));
            let body = b"0123456789";
            match kind {
                "cl-non-numeric" => b.headers.push(("Content-Length".into(), t::pick(&[&b"abc"[..], b"12a", b"1 0", b"0x10", b"ten", b"1e1", b"10;q=1"]).to_vec())),
                "cl-signed" => b.headers.push(("Content-Length".into(), t::pick(&[&b"-5"[..], b"+10", b"-0", b"-10"]).to_vec())),
                "cl-overflow" => b.headers.push(("Content-Length".into(), t::pick(&[&b"99999999999999999999999999"[..], b"18446744073709551616", b"184467440737095516150", b"100000000000000000000"]).to_vec())),
                _ => {
                    b.headers.push(("Content-Length".into(), b"10".to_vec()));
                    b.headers.push(("Content-Length".into(), b"7".to_vec()));
                }
            }
            let mut v = b.head_bytes();
            v.extend_from_slice(body);
            (v, After::Silence, kind, true)
        }
        "bad-method-bytes" => {
            let m = t::pick(&[&b"G\0T"[..], b"G\xc9T", b"\0GET", b"GET\0", b"\xff\xfe", b"P\x00ST"]);
            let mut v = m.to_vec();
            let sp = request_line.iter().position(|b| *b == b' ').unwrap();
            v.extend_from_slice(&request_line[sp..]);
            v.extend_from_slice(&rest);
            (v, After::Silence, kind, true)
        }
        _ /* nul-in-version */ => {
            let ver = t::pick(&[&b"HTTP/1.\x001"[..], b"HTTP\0/1.1", b"HTTP/1.1\0", b"\0HTTP/1.1", b"HTTP/1.\xb9"]);
            let pos = request_line.windows(8).position(|w| w == b"HTTP/1.1").unwrap();
            let mut v = request_line[..pos].to_vec();
            v.extend_from_slice(ver);
            v.extend_from_slice(&rest);
            (v, After::Silence, "nul-in-version", true)
        }
    }
}

fn gen_mutation_g(base: &ReqSpec, cfg: &RunCfg, out: &mut Outcome) -> (Vec<u8>, After, &'static str, bool) {
    let kinds: [&'static str; 17] = [
        "http10", "colon-nospace", "ows-around-value", "absolute-form", "chunked-request", "lowercase-method", "non-utf8-header-value", "nul-in-header-value", "raw-high-byte-in-target", "raw-lead-byte-then-escaped-continuation",
        "pct-non-utf8-path", "pct-non-utf8-query", "head-over-1024", "asterisk-form", "empty-header-value", "non-utf8-connection", "unknown-method",
    ];
    let mut kind = t::pick(&kinds);
    for _ in 0..8 {
        if cfg.avoid(kind) {
            *out.redraws.entry(kind.to_string()).or_insert(0) += 1;
            kind = t::pick(&kinds);
        } else {
            break;
        }
    }
    if let Some(e) = &cfg.enter {
        if let Some(k) = kinds.iter().find(|k| **k == e.as_str()) {
            kind = k;
        }
    }
    let mut b = base.clone();
    let rebuild_line = |b: &ReqSpec, f: &dyn Fn(&str) -> String| -> Vec<u8> {
        let full = b.to_bytes();
        let le = full.iter().position(|x| *x == b'\r').unwrap();
        let line = String::from_utf8_lossy(&full[..le]).into_owned();
        let mut v = f(&line).into_bytes();
        v.extend_from_slice(&full[le..]);
        v
    };
    let bytes: Vec<u8> = match kind {
        "http10" => rebuild_line(&b, &|l| l.replacen("HTTP/1.1", "HTTP/1.0", 1)),
        "colon-nospace" => {
            b.body = None;
            let mut v = b.head_bytes();
            v.truncate(v.len() - 2);
            v.extend_from_slice(b"Host:example.com\r\n\r\n");
            v
        }
        "ows-around-value" => {
            b.body = None;
            let mut v = b.head_bytes();
            v.truncate(v.len() - 2);
            v.extend_from_slice(t::pick(&[&b"Host:  example.com  \r\n\r\n"[..], b"Host: \texample.com\r\n\r\n", b"Host: example.com \r\n\r\n"]));
            v
        }
        "absolute-form" => rebuild_line(&b, &|l| l.replacen(" /", " http://example.com/", 1)),
        "chunked-request" => {
            b.body = None;
            b.method = "POST".into();
            b.headers.push(("Transfer-Encoding".into(), b"chunked".to_vec()));
            let mut v = b.head_bytes();
            v.extend_from_slice(b"5\r\nhello\r\n0\r\n\r\n");
            v
        }
        "lowercase-method" => rebuild_line(&b, &|l| {
            let (m, rest) = l.split_once(' ').unwrap();
            format!("{} {}", m.to_ascii_lowercase(), rest)
        }),
        "unknown-method" => rebuild_line(&b, &|l| {
            let (_, rest) = l.split_once(' ').unwrap();
            format!("{} {}", t::pick(&["TRACE", "CONNECT", "PROPFIND", "GETX", "G"]), rest)
        }),
        "non-utf8-header-value" => {
            let name = t::pick(&["X-Bin", "User-Agent", "Accept", "Cookie", "Authorization", "Content-Type", "Host"]);
            b.headers.push((name.into(), t::pick(&[&b"caf\xe9"[..], b"\xff\xfe", b"ok\x80"]).to_vec()));
            b.to_bytes()
        }
        "non-utf8-connection" => {
            b.headers.push(("Connection".into(), t::pick(&[&b"clos\xe9"[..], b"\xff", b"keep-alive\x80"]).to_vec()));
            b.to_bytes()
        }
        "nul-in-header-value" => {
            let name = t::pick(&["X-Bin", "User-Agent", "Accept"]);
            b.headers.push((name.into(), b"a\0b".to_vec()));
            b.to_bytes()
        }
        "raw-high-byte-in-target" => {
            let mut v = b.to_bytes();
            let sp = v.iter().position(|x| *x == b' ').unwrap();
            v.insert(sp + 2, t::pick(&[0xffu8, 0xe9, 0x80]));
            v
        }
        "raw-lead-byte-then-escaped-continuation" => {
            // a multi-byte character spelled half raw, half escaped: its decoded form is UTF-8, its raw form is not.
            // Whatever the server answers, no accessor of the request object may panic on it (class G)
            let mut v = b.to_bytes();
            let sp = v.iter().position(|x| *x == b' ').unwrap();
            let (lead, rest): (u8, &str) = t::pick(&[(0xe4u8, "%B8%80"), (0xc3, "%A9"), (0xf0, "%9F%98%80")]);
            let mut ins = vec![b'/', lead];
            ins.extend_from_slice(rest.as_bytes());
            // in front of the path: "/<raw lead><escaped continuation>/..."
            let at = sp + 1;
            v.splice(at..at, ins);
            v
        }
        "pct-non-utf8-path" => {
            b.path = format!("{}{}", if b.path == "/" { "" } else { b.path.trim_end_matches('/') }, t::pick(&["/%FF", "/a%80b", "/%C3", "/%E4%B8"]));
            b.to_bytes()
        }
        "pct-non-utf8-query" => {
            b.query = Some(t::pick(&["a=%FF", "%80=1", "k=%C3&j=1"]).to_string());
            b.to_bytes()
        }
        "head-over-1024" => {
            b.body = None;
            let n = 1000 + t::draw(600) as usize;
            b.headers.insert(t::range(0, b.headers.len() as u64) as usize, ("X-Long".into(), vec![b'v'; n]));
            b.to_bytes()
        }
        "asterisk-form" => {
            b.method = "OPTIONS".into();
            rebuild_line(&b, &|l| {
                let mut it = l.splitn(3, ' ');
                let m = it.next().unwrap();
                let _ = it.next();
                format!("{} * {}", m, it.next().unwrap_or("HTTP/1.1"))
            })
        }
        _ /* empty-header-value */ => {
            b.body = None;
            let mut v = b.head_bytes();
            v.truncate(v.len() - 2);
            v.extend_from_slice(t::pick(&[&b"X-Empty: \r\n\r\n"[..], b"Accept: \r\n\r\n", b"X-Empty:\r\n\r\n", b" : x\r\n\r\n", b"X-Sp : x\r\n\r\n"]));
            kind = "empty-header-value";
            v
        }
    };
    (bytes, After::Silence, kind, true)
}

pub fn generate(cfg: &RunCfg, out: &mut Outcome) -> Scenario {
    let class = if let Some(e) = &cfg.enter {
        // hazard pass: the class is implied by the hazard entered
        match e.as_str() {
            "hdr-name-other-case" | "body-first-byte-nul" | "get-std-without-custom" => 0,
            k if M_KINDS.contains(&k) => 1,
            _ => 2,
        }
    } else {
        t::weighted(&[5, 3, 2])
    };
    // (W) generation options, steering away from known hazard classes
    let any_case = if cfg.entering("hdr-name-other-case") { true } else if cfg.avoid("hdr-name-other-case") { false } else { t::chance(1, 4) };
    let lead_nul = if cfg.entering("body-first-byte-nul") { true } else { !cfg.avoid("body-first-byte-nul") };
    let opts = GenOpts {
        name_case: if any_case && class == 0 { NameCase::Any } else { NameCase::Plain },
        max_headers: 12,
        allow_body: true,
        max_body: 4096,
        allow_leading_nul: lead_nul && class == 0,
        allow_repeats: true,
        connection_header: true,
    };
    let mut base = gen_request(&opts);
    // keep the (W) head below the buffer size
    while base.head_bytes().len() > 1024 {
        if base.headers.pop().is_none() {
            base.path = "/".into();
            base.query = None;
        }
    }
    if class == 0 {
        crate::reqmodel::maybe_pad_to_buffer_edge(&mut base);
        if base.head_bytes().len() >= 1020 {
            out.probe("w.head_at_buffer_edge");
        }
    }
    if cfg.entering("body-first-byte-nul") {
        let mut b = base.body.clone().unwrap_or_else(|| vec![b'x'; 5]);
        if b.is_empty() {
            b.push(0);
        }
        b[0] = 0;
        base.body = Some(b);
    }
    let (bytes, after, kind, complete): (Vec<u8>, After, &'static str, bool) = match class {
        0 => (base.to_bytes(), After::Silence, "well-formed", true),
        1 => gen_mutation_m(&base, cfg, out),
        _ => gen_mutation_g(&base, cfg, out),
    };
    // a well-formed request denotes the same thing when its bytes arrive in two pieces (C06 explores deliveries in depth;
    // here one cut, biased to the end of the head, keeps "never a wait for input that already arrived" honest)
    let cut = if class == 0 && bytes.len() > 2 && t::chance(1, 4) {
        let hl = base.head_bytes().len().min(bytes.len() - 1);
        let at = match t::weighted(&[2, 2, 1, 1]) {
            // inside or right behind the method token: decisions taken on the first bytes alone
            3 => (1 + t::draw(9) as usize).min(bytes.len() - 1),
            0 => 1 + t::draw((bytes.len() - 1) as u32) as usize,
            1 => hl.saturating_sub(t::draw(5) as usize).max(1),
            _ => (hl + t::draw(3) as usize).min(bytes.len() - 1),
        };
        Some((at, t::pick(&[0u64, 1, 30, 2000])))
    } else {
        None
    };
    Scenario { class: ["W", "M", "G"][class].to_string(), kind: kind.to_string(), base, bytes, after, complete, cut }
}

pub fn run(cfg: &RunCfg, direct: Option<&serde_json::Value>) -> Outcome {
    let mut out = Outcome::new();
    let sc: Scenario = match direct {
        Some(v) => match serde_json::from_value(v.clone()) {
            Ok(s) => s,
            Err(e) => {
                out.verdict = crate::rt::Verdict::Inconclusive(format!("cannot decode scenario: {e}"));
                return out;
            }
        },
        None => generate(cfg, &mut out),
    };
    rt::mark_generated();
    execute(&sc, &mut out);
    out
}

fn execute(sc: &Scenario, out: &mut Outcome) {
    let base = &sc.base;
    let class = match sc.class.as_str() {
        "W" => 0,
        "M" => 1,
        _ => 2,
    };
    let class_name = sc.class.as_str();
    let kind = sc.kind.as_str();
    let complete = sc.complete;
    let bytes = &sc.bytes;

    // hazards of the scenario
    if class == 0 {
        let mut names: Vec<(String, bool)> = base.headers.iter().map(|(n, _)| (n.clone(), is_std_header(n))).collect();
        if base.body.is_some() {
            names.push((base.cl_name.clone(), true));
        }
        for (n, is_std) in &names {
            let lower = n.to_ascii_lowercase();
            let canonical = crate::reqmodel::STD_REQ_HEADERS.iter().find(|s| s.eq_ignore_ascii_case(n)).map(|s| s.to_string());
            let plain = *n == lower || (*is_std && Some(n.clone()) == canonical);
            if !plain {
                out.hazard("hdr-name-other-case");
            }
        }
        if base.body.as_ref().map(|b| b.first() == Some(&0)).unwrap_or(false) {
            out.hazard("body-first-byte-nul");
        }
        if base.custom_names().is_empty() && !base.std_names().is_empty() {
            out.hazard("get-std-without-custom");
        }
        {
            let mut seen: Vec<String> = Vec::new();
            for (n, _) in &base.headers {
                let l = n.to_ascii_lowercase();
                if !is_std_header(&l) && seen.contains(&l) {
                    out.hazard("repeated-custom-header");
                }
                seen.push(l);
            }
        }
        if base.to_bytes().len() > 1024 && base.body.is_some() {
            out.probe("w.body_crosses_1024");
        }
        let eh = base.expected_headers();
        let total: usize = base.headers.len() + base.body.is_some() as usize;
        if eh.len() < total {
            out.probe("w.repeated_header");
        }
    } else {
        out.hazard(kind);
    }

    DUMP_CUSTOM.with(|l| *l.borrow_mut() = base.custom_names());
    DUMP_GET_STD.with(|l| *l.borrow_mut() = base.std_names());

    out.scenario = serde_json::to_value(sc).unwrap_or(serde_json::Value::Null);
    out.scenario["text"] = json!(String::from_utf8_lossy(bytes).chars().take(400).collect::<String>());
    out.scenario_hash = rt::fnv64(format!("{class_name}|{kind}|{}|{:?}|{:?}", crate::client::hex(bytes), sc.after, sc.cut).as_bytes());
    if sc.cut.is_some() {
        out.probe("w.two_segments");
        simcore::with(|w| w.count("fault.segment_cut"));
    }
    let shown = format!("{:?}", String::from_utf8_lossy(bytes).chars().take(400).collect::<String>());

    // ---- world
    let app = ohkami::Ohkami::new((Dump,));
    rt::serve(app);
    let obs = Rc::new(RefCell::new(Obs::default()));
    let obs2 = obs.clone();
    let head_req = bytes.starts_with(b"HEAD ");
    let bytes2 = bytes.clone();
    let after2 = sc.after.clone();
    let cut = sc.cut;
    simcore::spawn_task("client", "client", async move {
        let mut c = match Client::connect(rt::ADDR, ConnCfg::default()).await {
            Ok(c) => c,
            Err(_) => return,
        };
        match cut {
            Some((at, gap)) if at > 0 && at < bytes2.len() => {
                c.send(&bytes2[..at], 0);
                if gap > 0 {
                    simcore::sleep(gap * simcore::MS).await;
                }
                c.send(&bytes2[at..], 0);
            }
            _ => c.send(&bytes2, 0),
        }
        match after2 {
            After::Fin(d) => {
                c.send_fin(d);
                simcore::with(|w| w.count("fault.fin_after_partial_input"));
            }
            After::Rst(k, d) => {
                c.send_rst(err_kind(k), d);
                simcore::with(|w| w.count("fault.connection_error"));
            }
            After::Silence => {}
        }
        let r = c.recv(head_req, DEFAULT_TIMEOUT).await;
        let got_response = r.is_ok();
        obs2.borrow_mut().result = Some(r);
        if got_response {
            // the client is done: close its sending side, see that the server closes too
            c.send_fin(0);
            let (closed, extra) = c.drain_until_close(DEFAULT_TIMEOUT).await;
            let mut o = obs2.borrow_mut();
            o.closed_after = Some(closed);
            o.extra = extra;
        }
    });
    let end = simcore::run();
    let obs = obs.borrow();

    // ---- oracle
    let outcome_kind: String = match &obs.result {
        None => "no-result".into(),
        Some(Ok(r)) => format!("status-{}", r.status),
        Some(Err(RecvErr::Closed(p))) => {
            if p.is_empty() {
                "closed".into()
            } else {
                "closed-midresponse".into()
            }
        }
        Some(Err(RecvErr::Reset(_))) => "reset".into(),
        Some(Err(RecvErr::Timeout(_))) => "timeout".into(),
        Some(Err(RecvErr::Malformed(..))) => "malformed-response".into(),
    };
    out.states.push(format!("{class_name}/{kind}/{outcome_kind}"));
    out.nontrivial = matches!(&obs.result, Some(Ok(_)) | Some(Err(RecvErr::Closed(_))));

    // 1. panics are violations in every class
    // (the one excused panic — `write_all(..).expect("Failed to send response")` when the peer went away — stays excused
    // here as everywhere, also after input that never was a complete message: the tree itself answers a head cut short by
    // a connection error other than ECONNRESET with a 500, and panics in `send` on the dead connection; see DESIGN.md 7.1,
    // candidate s, and the note on the seeded change C02-8 in 8.2)
    let panics = rt::panicked_tasks();
    if let Some((_, _, file, _, msg)) = panics.first() {
        out.violate("no-panic", rt::panic_site(file, msg), format!("{class_name}/{kind}: a server task panicked at {file}: {msg}; client saw {outcome_kind}; input={shown}"));
        return;
    }
    if matches!(end, simcore::EndReason::StepCap | simcore::EndReason::TimeCap) {
        out.verdict = crate::rt::Verdict::Inconclusive(format!("{end:?}"));
        return;
    }
    if let Some(Err(RecvErr::Malformed(m, raw))) = &obs.result {
        out.violate("response-well-formed", kind, format!("{class_name}/{kind}: response is not well-formed HTTP/1.1: {m}; raw={:?}", String::from_utf8_lossy(raw).chars().take(200).collect::<String>()));
        return;
    }
    match class {
        0 => match &obs.result {
            Some(Ok(r)) => {
                if r.status != 200 || r.header("X-Dump").is_none() {
                    out.violate("w-answered-by-dump", format!("status-{}", r.status), format!("well-formed request was refused with {} {}; request={shown}", r.status, r.reason));
                    return;
                }
                if r.header("X-Dump-Method") != Some(base.method.as_str()) {
                    out.violate("w-dump-equals-reference", "method-seen-by-the-fang", format!("the fang saw method {:?}, the request line says {}; request={shown}", r.header("X-Dump-Method"), base.method));
                    return;
                }
                if base.is_head() {
                    // HEAD: no body to compare; the dump fang ran (X-Dump) and that is all that is observable
                    return;
                }
                let got: Vec<String> = r.body_text().lines().map(|s| s.to_string()).collect();
                let exp = base.expected_dump();
                let pick = |v: &[String], p: &str| -> Vec<String> { v.iter().filter(|l| l.starts_with(p)).cloned().collect() };
                for (tag, name, ordered) in [("M ", "method", true), ("P ", "path", true), ("Q ", "query", true), ("H ", "header-typed", false), ("G ", "header-get", false), ("X ", "header-custom", false), ("B ", "payload", true)] {
                    let mut g = pick(&got, tag);
                    let mut e = pick(&exp, tag);
                    if !ordered {
                        g.sort();
                        e.sort();
                    }
                    if g != e {
                        out.violate(
                            "w-dump-equals-reference",
                            name,
                            format!("{name} differs: expected {:?} observed {:?}; request={shown}", e.iter().take(6).collect::<Vec<_>>(), g.iter().take(6).collect::<Vec<_>>()),
                        );
                        return;
                    }
                }
            }
            other => {
                out.violate("w-answered-by-dump", outcome_kind.clone(), format!("well-formed request got no response: {:?}; request={shown}", other.as_ref().map(|r| r.as_ref().err())));
            }
        },
        _ => {
            // M and G
            match &obs.result {
                Some(Ok(r)) => {
                    if class == 1 && (200..400).contains(&r.status) {
                        out.violate("m-refused", kind, format!("malformed input ({kind}) was accepted with status {}; input={shown}", r.status));
                        return;
                    }
                    if class == 2 {
                        out.probe("g.complete_answered");
                    }
                }
                Some(Err(RecvErr::Timeout(_))) => {
                    // nothing came back within 30 simulated seconds
                    if complete {
                        out.violate("no-wait-for-arrived-input", kind, format!("{class_name}/{kind}: complete message delivered, server neither answered nor closed within 30 s; input={shown}"));
                        return;
                    }
                }
                _ => {}
            }
            if kind == "trunc-fin" {
                out.probe("m.fin_inside_head");
            }
            if kind == "trunc-rst" || kind == "short-body-rst" {
                out.probe("m.connection_error_inside_request");
            }
            if kind == "short-body-fin" {
                out.probe("m.fin_inside_body");
            }
        }
    }
}
