//! C17 — server-sent event streams deliver every message intact and end properly.

use super::PropInfo;
use crate::client::{Client, Framing, RecvErr, Resp, DEFAULT_TIMEOUT};
use crate::rt::{self, t, Outcome, RunCfg, Verdict};
use ohkami::util::StreamExt as _;
use ohkami::sse::DataStream;
use ohkami::{Ohkami, Request, Response, Route};
use serde::{Deserialize, Serialize};
use simcore::{ConnCfg, MS};
use std::cell::RefCell;
use std::rc::Rc;

pub const INFO: PropInfo = PropInfo {
    quick_runs: 40_000,
    thorough_runs: 1_500_000,
    rule: "each run = 1..3 SSE connections, each with a generated producer script (sends of arbitrary Unicode text with LF/CR/CRLF/leading spaces/field look-alikes/NUL/BOM, bursts, yields, timer sleeps, completion with empty or non-empty queue) through one of seven producer kinds (DataStream::new, a hand-written Stream, Response::with_stream, and the public combinators queue().filter / .map / .chain and a hand-written Stream .filter) \
           (DataStream::new queue, DataStream::from(custom Stream), Response::with_stream), read by clients with tape-chosen read sizes, pauses and windows (back-pressure), a normal request following on the same connection; \
           non-trivial = at least one event was received; distinct = distinct hash of (scripts, producer kinds, socket behaviour)",
    state_measure: "(producer kind, script shape: burst/yield/sleep/finish-with-queue, reader pace) combinations",
    assumptions: &["messages are valid UTF-8 (Rust strings)", "total planned stream time stays below the keep-alive timeout"],
    expected_probes: &["c17.burst_before_yield", "c17.finish_with_nonempty_queue", "c17.zero_messages", "c17.message_with_cr", "c17.message_with_lf", "c17.backpressure_fired", "c17.followup_answered", "c17.sleep_in_producer", "c17.empty_message", "c17.more_than_32_messages", "c17.more_than_256_messages", "c17.stream_combinator", "c17.last_message_rejected_by_filter", "c17.reader_stalls_for_seconds", "c17.producer_silent_for_many_seconds"],
};

#[derive(Clone, Debug, Serialize, Deserialize, PartialEq)]
pub enum Step {
    Send(String),
    Yield,
    Sleep(u64),
}
#[derive(Clone, Debug, Serialize, Deserialize)]
pub struct StreamPlan {
    /// 0 = DataStream::new (queue), 1 = DataStream::from(custom stream), 2 = Response::with_stream,
    /// 3 = stream::queue(..).filter(..) (messages starting `DROP:` are rejected), 4 = stream::queue(..).map(..) (`m` -> `[m]`),
    /// 5 = queue(first half).chain(queue(second half)), 6 = custom stream .filter(..)
    pub kind: u8,
    pub steps: Vec<Step>,
    pub read_max: usize,
    pub read_pause_ms: u64,
    pub window: usize,
    pub short_writes: bool,
    pub start_ms: u64,
    /// Some(n): this client goes away (connection error) after having read n bytes; nothing is asserted about its own stream
    #[serde(default)]
    pub abort_after: Option<usize>,
    /// the reader stops reading once, for this many ms, after having received this many bytes (long back-pressure)
    #[serde(default)]
    pub stall: Option<(usize, u64)>,
}

/// the messages the handler's stream yields (what the client must decode), given the script and the producer kind
pub fn expected_messages(pl: &StreamPlan) -> Vec<String> {
    let sent: Vec<String> = pl.steps.iter().filter_map(|s| if let Step::Send(m) = s { Some(m.clone()) } else { None }).collect();
    match pl.kind {
        3 | 6 => sent.into_iter().filter(|m| !m.starts_with("DROP:")).collect(),
        4 => sent.into_iter().map(|m| format!("[{m}]")).collect(),
        _ => sent,
    }
}
#[derive(Clone, Debug, Serialize, Deserialize)]
pub struct Scenario {
    pub streams: Vec<StreamPlan>,
    /// tuning knob: `OHKAMI_KEEPALIVE_TIMEOUT` for this run (None = 42 s); raised when a producer is silent for long
    #[serde(default)]
    pub keepalive_s: Option<u64>,
}

thread_local! {
    static PLANS: RefCell<Vec<StreamPlan>> = const { RefCell::new(Vec::new()) };
}

const ALPHA: &[&str] = &[
    "a", "b", " ", "  ", ":", "data:", "event: x", "id: 1", "retry: 5", "\n", "\n\n", "\r", "\r\n", "é", "日本", "😀", "\0", "\u{feff}", "xyz", ": comment", "data", "\t", "=",
];

fn gen_text() -> String {
    match t::weighted(&[3, 5, 2, 1]) {
        0 => t::string(b"abc xyz019", 0, 12),
        1 => (0..t::range(0, 6)).map(|_| t::pick(ALPHA)).collect::<Vec<_>>().join(""),
        2 => {
            // (a one-line message of n bytes makes a chunk of n + 8 bytes: 8, 248, 4088 hit the powers of sixteen)
            let n = t::pick(&[0usize, 1, 7, 8, 9, 15, 16, 17, 247, 248, 249, 255, 256, 4087, 4088, 4089, 4095, 5000, 8184, 16375, 16376, 16377, 16384, 32760, 65528]);
            "m".repeat(n)
        }
        _ => String::new(),
    }
}

fn gen_plan(_i: usize) -> StreamPlan {
    let n = t::weighted(&[1, 2, 3, 3, 2, 2, 1, 1]);
    let mut steps: Vec<Step> = Vec::new();
    // long runs: counters inside the stream (fairness budgets, batch sizes, ring positions) only show after many items
    let long = t::chance(1, 8);
    for _ in 0..n {
        match t::weighted(&[6, 3, 1]) {
            0 if long && t::chance(1, 2) => {
                let k = t::pick(&[15usize, 16, 17, 31, 32, 33, 34, 40, 63, 64, 65, 100, 127, 128, 129, 255, 256, 257, 300]);
                let ping_pong = t::chance(1, 3);
                for i in 0..k {
                    steps.push(Step::Send(if t::chance(1, 12) { gen_text() } else { format!("b{i}") }));
                    if ping_pong {
                        steps.push(Step::Yield);
                    }
                }
            }
            0 => {
                let burst = 1 + t::weighted(&[6, 2, 1]);
                for _ in 0..burst {
                    steps.push(Step::Send(gen_text()));
                }
            }
            1 => steps.push(Step::Yield),
            _ => steps.push(Step::Sleep(t::pick(&[1u64, 20, 1500]))),
        }
    }
    let window = t::pick(&[1usize << 30, 1 << 30, 64, 9]);
    let read_max = t::pick(&[1usize << 16, 1 << 16, 50, 3]);
    let mut read_pause_ms = t::pick(&[0u64, 0, 1, 40]);
    let total: usize = steps.iter().map(|s| if let Step::Send(x) = s { x.len() + 40 } else { 0 }).sum::<usize>() + 300;
    if (total / read_max.min(window).max(1)) as u64 * read_pause_ms > 8_000 {
        read_pause_ms = 0;
    }
    let abort_after = if _i > 0 && t::chance(1, 6) { Some(t::pick(&[0usize, 1, 60, 150, 400])) } else { None };
    let kind = if t::chance(1, 3) { 3 + t::draw(4) as u8 } else { t::draw(3) as u8 };
    if kind == 3 || kind == 6 {
        // some messages are rejected by the filter: alone, in runs, first, last
        for st in steps.iter_mut() {
            if let Step::Send(m) = st {
                if t::chance(1, 3) {
                    *m = format!("DROP:{m}");
                }
            }
        }
    }
    // one long stall of the reader (seconds), with a window small enough for the server's write to pend meanwhile
    let (stall, window) = if abort_after.is_none() && t::chance(1, 10) { (Some((t::pick(&[0usize, 20, 200, 2000]), t::pick(&[5_500u64, 7_000, 12_000]))), t::pick(&[9usize, 64, 300])) } else { (None, window) };
    // the keep-alive timeout (42 s) bounds the whole session: keep the planned transfer, stall included, well below it
    let mut read_pause_ms = read_pause_ms;
    if stall.is_some() && (total / read_max.min(window).max(1)) as u64 * read_pause_ms > 8_000 {
        read_pause_ms = 0;
    }
    StreamPlan { kind, steps, read_max, read_pause_ms, window, short_writes: t::chance(1, 3), start_ms: t::pick(&[0u64, 0, 1, 30]), abort_after, stall }
}

pub fn generate(_cfg: &RunCfg, _out: &mut Outcome) -> Scenario {
    let n = 1 + t::weighted(&[5, 3, 2]);
    let mut streams: Vec<StreamPlan> = (0..n).map(gen_plan).collect();
    // a producer that is silent for a long time (before the first message, between two, before it completes): whatever
    // the server does meanwhile (heart-beats, deadlines) must leave the body valid and the messages intact
    let mut keepalive_s = None;
    if t::chance(1, 10) {
        let pl = &mut streams[0];
        if pl.abort_after.is_none() && pl.stall.is_none() {
            let at = t::draw(pl.steps.len() as u32 + 1) as usize;
            pl.steps.insert(at, Step::Sleep(t::pick(&[9_000u64, 14_000, 15_000, 16_000, 31_000, 61_000])));
            keepalive_s = Some(300);
        }
    }
    Scenario { streams, keepalive_s }
}

pub fn run(cfg: &RunCfg, direct: Option<&serde_json::Value>) -> Outcome {
    let mut out = Outcome::new();
    let sc: Scenario = match direct {
        Some(v) => match serde_json::from_value(v.clone()) {
            Ok(s) => s,
            Err(e) => {
                out.verdict = Verdict::Inconclusive(format!("cannot decode scenario: {e}"));
                return out;
            }
        },
        None => generate(cfg, &mut out),
    };
    rt::mark_generated();
    execute(&sc, &mut out);
    out
}

// ---- producers ------------------------------------------------------------------------------------

/// a hand-written Stream driven by the same script (Pending + self-wake for Yield, a timer for Sleep)
struct ScriptStream {
    steps: std::collections::VecDeque<Step>,
    sleeping: Option<std::pin::Pin<Box<tokio::time::Sleep>>>,
}
impl ohkami::util::Stream for ScriptStream {
    type Item = String;
    fn poll_next(mut self: std::pin::Pin<&mut Self>, cx: &mut std::task::Context<'_>) -> std::task::Poll<Option<String>> {
        use std::future::Future;
        use std::task::Poll;
        loop {
            if let Some(s) = self.sleeping.as_mut() {
                match s.as_mut().poll(cx) {
                    Poll::Pending => return Poll::Pending,
                    Poll::Ready(()) => self.sleeping = None,
                }
            }
            match self.steps.pop_front() {
                None => return Poll::Ready(None),
                Some(Step::Send(m)) => return Poll::Ready(Some(m)),
                Some(Step::Yield) => {
                    // Pending once with a self-wake (counted as an effect: a deliberate yield, not a busy wait)
                    let mut y = Box::pin(simcore::yield_now());
                    let _ = y.as_mut().poll(cx);
                    return Poll::Pending;
                }
                Some(Step::Sleep(ms)) => self.sleeping = Some(Box::pin(tokio::time::sleep(std::time::Duration::from_millis(ms)))),
            }
        }
    }
}

fn plan_of(req: &Request) -> Option<StreamPlan> {
    let i: usize = req.headers.get("x-plan")?.parse().ok()?;
    PLANS.with(|p| p.borrow().get(i).cloned())
}

fn sse_handler(req: &Request) -> Response {
    let Some(plan) = plan_of(req) else { return Response::BadRequest() };
    let steps = plan.steps.clone();
    match plan.kind {
        0 => {
            let ds: DataStream<String> = DataStream::new(move |mut s| async move {
                for st in steps {
                    match st {
                        Step::Send(m) => s.send(m),
                        Step::Yield => tokio::task::yield_now().await,
                        Step::Sleep(ms) => tokio::time::sleep(std::time::Duration::from_millis(ms)).await,
                    }
                }
            });
            ohkami::IntoResponse::into_response(ds)
        }
        1 => {
            let ds: DataStream<String> = DataStream::from(ScriptStream { steps: steps.into(), sleeping: None });
            ohkami::IntoResponse::into_response(ds)
        }
        2 => Response::OK().with_stream(ScriptStream { steps: steps.into(), sleeping: None }),
        3 => {
            let q = ohkami::util::stream::queue(move |mut q| run_script(steps, move |m| q.push(m)));
            let ds: DataStream<String> = DataStream::from(q.filter(|m: &String| !m.starts_with("DROP:")));
            ohkami::IntoResponse::into_response(ds)
        }
        4 => {
            let q = ohkami::util::stream::queue(move |mut q| run_script(steps, move |m| q.push(m)));
            let ds: DataStream<String> = DataStream::from(q.map(|m: String| format!("[{m}]")));
            ohkami::IntoResponse::into_response(ds)
        }
        5 => {
            let half = steps.len() / 2;
            let (a, b) = (steps[..half].to_vec(), steps[half..].to_vec());
            let qa = ohkami::util::stream::queue(move |mut q| run_script(a, move |m| q.push(m)));
            let qb = ohkami::util::stream::queue(move |mut q| run_script(b, move |m| q.push(m)));
            let ds: DataStream<String> = DataStream::from(qa.chain(qb));
            ohkami::IntoResponse::into_response(ds)
        }
        _ => {
            let st = ScriptStream { steps: steps.into(), sleeping: None };
            let ds: DataStream<String> = DataStream::from(st.filter(|m: &String| !m.starts_with("DROP:")));
            ohkami::IntoResponse::into_response(ds)
        }
    }
}

/// the producer script, pushing through `push`
async fn run_script(steps: Vec<Step>, mut push: impl FnMut(String)) {
    for st in steps {
        match st {
            Step::Send(m) => push(m),
            Step::Yield => tokio::task::yield_now().await,
            Step::Sleep(ms) => tokio::time::sleep(std::time::Duration::from_millis(ms)).await,
        }
    }
}

// ---- the independent event-stream parser (WHATWG, DESIGN.md A.7) -----------------------------------

#[derive(Debug, PartialEq, Clone)]
pub struct Parsed {
    pub events: Vec<String>,
    pub other_fields: Vec<String>,
    pub comments: usize,
}

pub fn parse_event_stream(body: &[u8]) -> Result<Parsed, String> {
    let text = std::str::from_utf8(body).map_err(|e| format!("event stream is not UTF-8: {e}"))?;
    let text = text.strip_prefix('\u{feff}').unwrap_or(text);
    // split lines on CRLF, LF, CR
    let mut lines: Vec<&str> = Vec::new();
    let b = text.as_bytes();
    let (mut start, mut i) = (0, 0);
    while i < b.len() {
        match b[i] {
            b'\r' => {
                lines.push(&text[start..i]);
                if b.get(i + 1) == Some(&b'\n') {
                    i += 1;
                }
                start = i + 1;
            }
            b'\n' => {
                lines.push(&text[start..i]);
                start = i + 1;
            }
            _ => {}
        }
        i += 1;
    }
    let trailing = &text[start..];
    let mut p = Parsed { events: Vec::new(), other_fields: Vec::new(), comments: 0 };
    let mut data = String::new();
    let mut have_data = false;
    for line in lines {
        if line.is_empty() {
            if have_data {
                if data.ends_with('\n') {
                    data.pop();
                }
                p.events.push(std::mem::take(&mut data));
            }
            data.clear();
            have_data = false;
            continue;
        }
        if line.starts_with(':') {
            p.comments += 1;
            continue;
        }
        let (name, value) = match line.split_once(':') {
            Some((n, v)) => (n, v.strip_prefix(' ').unwrap_or(v)),
            None => (line, ""),
        };
        if name == "data" {
            data.push_str(value);
            data.push('\n');
            have_data = true;
        } else {
            p.other_fields.push(name.to_string());
        }
    }
    if !trailing.is_empty() || have_data {
        return Err(format!("event stream ends inside an event (pending data {:?}, trailing {:?})", data.chars().take(40).collect::<String>(), trailing.chars().take(40).collect::<String>()));
    }
    Ok(p)
}

pub fn normalise(m: &str) -> String {
    m.replace("\r\n", "\n").replace('\r', "\n")
}

#[derive(Default)]
struct SObs {
    first: Option<Result<Resp, RecvErr>>,
    followup: Option<Result<Resp, RecvErr>>,
}

fn execute(sc: &Scenario, out: &mut Outcome) {
    out.scenario = serde_json::to_value(sc).unwrap_or(serde_json::Value::Null);
    out.scenario_hash = rt::fnv64(serde_json::to_string(sc).unwrap_or_default().as_bytes());
    PLANS.with(|p| *p.borrow_mut() = sc.streams.clone());
    if let Some(k) = sc.keepalive_s {
        rt::set_keepalive_timeout(k);
        out.probe("c17.producer_silent_for_many_seconds");
    }
    for pl in &sc.streams {
        let msgs: Vec<&String> = pl.steps.iter().filter_map(|s| if let Step::Send(m) = s { Some(m) } else { None }).collect();
        if msgs.is_empty() {
            out.probe("c17.zero_messages");
        }
        if msgs.iter().any(|m| m.replace("\r\n", "").contains('\r')) {
            out.hazard("lone-cr-in-message");
            out.probe("c17.message_with_cr");
        }
        if msgs.iter().any(|m| m.contains('\n')) {
            out.probe("c17.message_with_lf");
        }
        if msgs.iter().any(|m| m.is_empty()) {
            out.probe("c17.empty_message");
        }
        if pl.steps.windows(3).any(|w| matches!(w, [Step::Send(_), Step::Send(_), Step::Yield | Step::Sleep(_)])) {
            out.probe("c17.burst_before_yield");
        }
        if msgs.len() >= 33 {
            out.probe("c17.more_than_32_messages");
        }
        if pl.kind >= 3 {
            out.probe("c17.stream_combinator");
        }
        if (pl.kind == 3 || pl.kind == 6) && pl.steps.iter().rev().find_map(|s| if let Step::Send(m) = s { Some(m.starts_with("DROP:")) } else { None }) == Some(true) {
            out.probe("c17.last_message_rejected_by_filter");
        }
        if pl.stall.is_some() {
            out.probe("c17.reader_stalls_for_seconds");
        }
        if msgs.len() >= 257 {
            out.probe("c17.more_than_256_messages");
        }
        if pl.steps.len() >= 2 && matches!(pl.steps[pl.steps.len() - 1], Step::Send(_)) && matches!(pl.steps[pl.steps.len() - 2], Step::Send(_)) {
            out.probe("c17.finish_with_nonempty_queue");
        }
        if pl.steps.iter().any(|s| matches!(s, Step::Sleep(_))) {
            out.probe("c17.sleep_in_producer");
        }
        out.states.push(format!(
            "kind{}|{}{}{}|pace{}",
            pl.kind,
            if pl.steps.iter().any(|s| matches!(s, Step::Yield)) { "Y" } else { "-" },
            if pl.steps.iter().any(|s| matches!(s, Step::Sleep(_))) { "S" } else { "-" },
            if matches!(pl.steps.last(), Some(Step::Send(_))) { "Q" } else { "-" },
            (pl.read_pause_ms > 0) as u8 + 2 * (pl.window < 1000) as u8
        ));
    }

    let app = Ohkami::new((
        "/sse".GET(|req: &Request| {
            let r = sse_handler(req);
            async move { r }
        }),
        "/ping".GET(|| async { "pong" }),
    ));
    rt::serve(app);
    let obs: Vec<Rc<RefCell<SObs>>> = sc.streams.iter().map(|_| Rc::new(RefCell::new(SObs::default()))).collect();
    for (i, pl) in sc.streams.iter().enumerate() {
        let o = obs[i].clone();
        let pl = pl.clone();
        simcore::spawn_task(format!("sse-client{i}"), "client", async move {
            if pl.start_ms > 0 {
                simcore::sleep(pl.start_ms * MS).await;
            }
            let cfg = ConnCfg { short_writes: pl.short_writes, window: pl.window, ..ConnCfg::default() };
            let Ok(mut c) = Client::connect(rt::ADDR, cfg).await else { return };
            c.send(format!("GET /sse HTTP/1.1\r\nHost: s\r\nx-plan: {i}\r\n\r\n").as_bytes(), 0);
            if let Some(n) = pl.abort_after {
                // fault: the peer disappears in the middle of the stream
                while c.received.len() < n {
                    match c.fill(64, DEFAULT_TIMEOUT).await {
                        crate::client::ReadOutcome::Data(_) => {}
                        _ => break,
                    }
                }
                c.send_rst(std::io::ErrorKind::ConnectionReset, 0);
                simcore::with(|w| w.count("fault.client_aborts_mid_stream"));
                simcore::sleep(MS).await;
                return;
            }
            c.stall = pl.stall.map(|(a, ms)| (a, ms * MS));
            // a patient client: the producer may be silent for longer than the default time-out
            let patience = DEFAULT_TIMEOUT + pl.steps.iter().map(|s| if let Step::Sleep(ms) = s { *ms * MS } else { 0 }).sum::<u64>();
            let r = c.recv_paced(false, patience, pl.read_max, pl.read_pause_ms * MS).await;
            let ok = r.is_ok();
            o.borrow_mut().first = Some(r);
            if ok {
                c.send(b"GET /ping HTTP/1.1\r\nHost: s\r\n\r\n", 0);
                let r2 = c.recv(false, DEFAULT_TIMEOUT).await;
                o.borrow_mut().followup = Some(r2);
            }
            c.send_fin(0);
            let _ = c.drain_until_close(DEFAULT_TIMEOUT).await;
        });
    }
    let end = simcore::run();
    if simcore::with(|w| w.counters.get("fault.write_backpressure").copied().unwrap_or(0)) > 0 {
        out.probe("c17.backpressure_fired");
    }

    // ---- oracle
    let panics = rt::panicked_tasks();
    if let Some((_, _, file, _, msg)) = panics.first() {
        out.violate("no-panic", rt::panic_site(file, msg), format!("a server task panicked at {file}: {msg}"));
        return;
    }
    if matches!(end, simcore::EndReason::StepCap | simcore::EndReason::TimeCap) {
        out.verdict = Verdict::Inconclusive(format!("{end:?}"));
        return;
    }
    for (i, pl) in sc.streams.iter().enumerate() {
        let ob = obs[i].borrow();
        let msgs: Vec<String> = expected_messages(pl);
        let ctx = format!("stream {i} (kind {}, {} messages, read_max {}, pause {} ms, window {})", pl.kind, msgs.len(), pl.read_max, pl.read_pause_ms, pl.window);
        let r = match &ob.first {
            Some(Ok(r)) => r,
            Some(Err(RecvErr::Malformed(m, _))) => {
                out.violate("chunked-body-valid", "malformed", format!("{ctx}: {m}"));
                return;
            }
            Some(Err(RecvErr::Timeout(p))) => {
                out.violate("stream-ends", "timeout", format!("{ctx}: the stream did not end within 30 s after {} bytes", p.len()));
                return;
            }
            Some(Err(e)) => {
                out.violate("stream-ends", "closed", format!("{ctx}: {}", format!("{e:?}").chars().take(100).collect::<String>()));
                return;
            }
            None => continue,
        };
        if pl.abort_after.is_some() {
            continue;
        }
        if r.status != 200 {
            out.violate("stream-headers", format!("status-{}", r.status), format!("{ctx}: status {}", r.status));
            return;
        }
        if !matches!(r.framing, Framing::Chunked(_)) || r.header("content-length").is_some() {
            out.violate("stream-headers", "framing", format!("{ctx}: framing {:?}, Content-Length {:?}", r.framing_kind(), r.header("content-length")));
            return;
        }
        if !r.header("content-type").map(|v| v.starts_with("text/event-stream")).unwrap_or(false) {
            out.violate("stream-headers", "content-type", format!("{ctx}: Content-Type {:?}", r.header("content-type")));
            return;
        }
        match parse_event_stream(&r.body) {
            Err(e) => {
                out.violate("event-stream-valid", "parse", format!("{ctx}: {e}"));
                return;
            }
            Ok(p) => {
                let expected: Vec<String> = msgs.iter().map(|m| normalise(m)).collect();
                if !p.events.is_empty() {
                    out.nontrivial = true;
                }
                if !p.other_fields.is_empty() || p.comments > 0 {
                    out.violate("no-field-injection", "foreign-field", format!("{ctx}: the stream carries fields other than data: {:?} ({} comments); messages {:?}", p.other_fields, p.comments, msgs.iter().map(|m| m.chars().take(30).collect::<String>()).collect::<Vec<_>>()));
                    return;
                }
                if p.events != expected {
                    let what = if p.events.len() < expected.len() { "lost-or-merged" } else if p.events.len() > expected.len() { "duplicated-or-split" } else { "content-differs" };
                    out.violate(
                        "events-equal-messages",
                        what,
                        format!("{ctx}: expected {:?} observed {:?}", expected.iter().map(|m| m.chars().take(30).collect::<String>()).collect::<Vec<_>>(), p.events.iter().map(|m| m.chars().take(30).collect::<String>()).collect::<Vec<_>>()),
                    );
                    return;
                }
            }
        }
        match &ob.followup {
            Some(Ok(r2)) if r2.status == 200 && r2.body == b"pong" => out.probe("c17.followup_answered"),
            other => {
                out.violate("followup-request-answered", "failed", format!("{ctx}: the request after the stream got {:?}", other.as_ref().map(|r| r.as_ref().map(|x| x.status).map_err(|e| format!("{e:?}").chars().take(60).collect::<String>()))));
                return;
            }
        }
    }
}
