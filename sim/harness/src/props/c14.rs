//! C14 — the CORS fang applies the configured policy to every response and preflight.

use super::c01::{self, Gen};
use super::PropInfo;
use crate::appgen::{self, AppSpec, Item};
use crate::client::{Client, Framing, RecvErr, Resp, DEFAULT_TIMEOUT};
use crate::rt::{self, t, Outcome, RunCfg, Verdict};
use ohkami::fang::CORS;
use serde::{Deserialize, Serialize};
use simcore::{ConnCfg, SEC};
use std::cell::RefCell;
use std::collections::BTreeSet;
use std::rc::Rc;

pub const INFO: PropInfo = PropInfo {
    quick_runs: 40_000,
    thorough_runs: 1_000_000,
    rule: "each run = one CORS policy (wildcard or specific origin, credentials, allow/expose header lists, max-age) at the root of a generated application (C01's route generator: method subsets, nested mounts, routes registered in one or several pieces, some handlers answering 500) \
           and 3..12 requests on a keep-alive connection: simple requests to hits, misses and erroring handlers, preflights with registered / unregistered / unknown requested methods and optional requested headers to registered and unregistered paths, OPTIONS without preflight headers; \
           non-trivial = at least one preflight succeeded and one failed; distinct = distinct hash of (policy, application, requests)",
    state_measure: "(request kind, outcome class) combinations",
    assumptions: &[
        "requests are well-formed (responses produced by the request parser before any fang runs are outside the statement)",
        "preflights whose requested method is HEAD (with GET registered) or OPTIONS are open: either outcome, but a 2xx must carry the right headers",
        "Vary and the answer to OPTIONS without Access-Control-Request-Method are open",
        "requests whose routing is ambiguous under C01's two readings are not judged",
    ],
    expected_probes: &["c14.preflight_ok", "c14.preflight_unregistered_method", "c14.preflight_unknown_path", "c14.simple_hit", "c14.simple_404", "c14.simple_500", "c14.credentials_on", "c14.wildcard_origin", "c14.echoed_request_headers", "c14.split_registration", "c14.mounted_route_preflight", "c14.empty_allow_list_with_requested_headers", "c14.policies_built_earlier_in_the_process"],
};

#[derive(Clone, Debug, Serialize, Deserialize)]
pub struct Policy {
    pub origin: String,
    pub credentials: bool,
    pub allow_headers: Option<Vec<String>>,
    pub expose_headers: Option<Vec<String>>,
    pub max_age: Option<u32>,
    /// `.AllowCredentials()` is the last builder call instead of the first (the policy is the same)
    #[serde(default)]
    pub credentials_last: bool,
}
#[derive(Clone, Debug, Serialize, Deserialize)]
pub struct Req {
    pub method: String,
    pub path: String,
    pub acrm: Option<String>,
    pub acrh: Option<String>,
    pub kind: String,
    /// the request's own `Origin`: 0 `https://example.com`, 1 none, 2 the configured origin, 3 another origin, 4 `null`
    /// (the statement ties the response headers to the configured policy, not to who asks)
    #[serde(default)]
    pub origin: u8,
    /// letter case of the request's header names (they are case-insensitive): 0 as in the specifications, 1 lower,
    /// 2 upper, 3 only the first letter capital, 4 alternating
    #[serde(default)]
    pub name_case: u8,
}
#[derive(Clone, Debug, Serialize, Deserialize)]
pub struct Scenario {
    pub policy: Policy,
    pub app: AppSpec,
    pub reqs: Vec<Req>,
    /// policies built (and dropped) earlier in the same process: what a builder remembers must not leak into the next policy
    #[serde(default)]
    pub earlier: Vec<Policy>,
    /// (wave 17) a third of the handlers set `Access-Control-Allow-Origin` themselves: 1 = to the policy's origin, 2 = to another
    #[serde(default)]
    pub handlers_state_origin: u8,
    /// (wave 18) a fifth of the handlers panic. The tree drops the connection without a response (nothing carries headers
    /// then); if something does answer in their place, it is a response and the policy applies to it
    #[serde(default)]
    pub handlers_panic: bool,
}

const HDRS: [&str; 7] = ["Content-Type", "X-Custom", "Authorization", "X-Requested-With", "Accept", "*", "x_under.score~"];

/// split some multi-method routes into several registration items (same path, disjoint methods)
fn split_routes(app: &mut AppSpec) -> bool {
    let mut did = false;
    let mut items = Vec::new();
    for it in app.items.drain(..) {
        match it {
            Item::Routes { path, methods } if methods.len() >= 2 && t::chance(1, 3) => {
                let mut a = methods.clone();
                let mut b = std::collections::BTreeMap::new();
                let k = a.keys().next().unwrap().clone();
                let v = a.remove(&k).unwrap();
                b.insert(k, v);
                items.push(Item::Routes { path: path.clone(), methods: a });
                // the second piece may call the path params by other names: it is the same route all the same
                let path_b = if path.contains(':') && t::chance(1, 2) {
                    path.split('/').map(|seg| if seg.starts_with(':') { format!(":{}2", &seg[1..]) } else { seg.to_string() }).collect::<Vec<_>>().join("/")
                } else {
                    path
                };
                items.push(Item::Routes { path: path_b, methods: b });
                did = true;
            }
            Item::Mount { prefix, mut app } => {
                did |= split_routes(&mut app);
                items.push(Item::Mount { prefix, app });
            }
            other => items.push(other),
        }
    }
    t::shuffle(&mut items);
    app.items = items;
    did
}

pub fn generate(cfg: &RunCfg, out: &mut Outcome) -> Scenario {
    let origin = if t::chance(1, 3) { "*".to_string() } else { t::pick(&["https://example.com", "http://localhost:3000", "https://a.b.c"]).to_string() };
    let pick_list = || -> Option<Vec<String>> {
        if t::chance(1, 8) {
            // configured, with an empty list: nothing is allowed / exposed (not the same as not configured)
            Some(Vec::new())
        } else if t::chance(1, 2) {
            let n = 1 + t::draw(3) as usize;
            let mut v: Vec<String> = (0..n).map(|_| t::pick(&HDRS).to_string()).collect();
            v.sort();
            v.dedup();
            Some(v)
        } else {
            None
        }
    };
    let policy = Policy { origin, credentials: t::chance(1, 2), allow_headers: pick_list(), expose_headers: pick_list(), max_age: if t::chance(1, 2) { Some(t::pick(&[0u32, 600, 86_400])) } else { None }, credentials_last: t::chance(1, 2) };
    let mut g = Gen { next_handler: 0, next_app: 0, next_fang: 0 };
    let mut app = c01::gen_app(&mut g, 0, 0, false);
    if cfg.entering("split-registration") || (!cfg.avoid("split-registration") && t::chance(1, 3)) {
        split_routes(&mut app);
    } else if cfg.avoid("split-registration") {
        *out.redraws.entry("split-registration".into()).or_insert(0) += 0;
    }
    // one full path registered by the enclosing application AND by an application mounted there, with other methods
    // (the statement's "merged across nested applications"): `"/auth".GET(f)` next to `"/auth".By(Ohkami::new("/".POST(g)))`
    let mut shared_path: Option<String> = None;
    if t::chance(1, 4) {
        let statics_only = |p: &str| !p.contains(':');
        // (not where the enclosing application already answers at that path: one handler per route and method)
        let parent_paths: Vec<String> = app.items.iter().filter_map(|it| if let Item::Routes { path, .. } = it { Some(path.clone()) } else { None }).collect();
        let mount_at = app.items.iter().position(|it| matches!(it, Item::Mount { prefix, .. } if statics_only(prefix) && !parent_paths.contains(prefix)));
        if let Some(i) = mount_at {
            let mut parent_methods: Vec<&str> = vec!["GET", "PUT", "POST", "PATCH", "DELETE"];
            t::shuffle(&mut parent_methods);
            let n_parent = 1 + t::draw(2) as usize;
            let (for_parent, for_child) = parent_methods.split_at(n_parent);
            let for_child = &for_child[..1 + t::draw(2) as usize];
            let mut hid = 5000;
            let mut spec = |ms: &[&str]| -> std::collections::BTreeMap<String, appgen::HandlerSpec> {
                ms.iter()
                    .map(|m| {
                        hid += 1;
                        (m.to_string(), appgen::HandlerSpec { id: hid, n_params: 0, local_fangs: vec![] })
                    })
                    .collect()
            };
            let child_methods = spec(for_child);
            let parent_spec = spec(for_parent);
            if let Item::Mount { prefix, app: child } = &mut app.items[i] {
                // the mounted application answers at its root with `for_child` (replacing whatever it had there)
                child.items.retain(|it| !matches!(it, Item::Routes { path, .. } if path == "/"));
                child.items.push(Item::Routes { path: "/".into(), methods: child_methods });
                shared_path = Some(prefix.clone());
            }
            if let Some(p) = &shared_path {
                // before or after the mount: registration order must not matter
                let at = t::draw(app.items.len() as u32 + 1) as usize;
                app.items.insert(at, Item::Routes { path: p.clone(), methods: parent_spec });
            }
        }
    }
    let table = appgen::table(&app);
    let n = t::range(3, 12) as usize;
    let mut base = c01::gen_requests(&table, n);
    if let Some(p) = &shared_path {
        // ask for it
        for _ in 0..2 {
            base.push(c01::Req { method: t::pick(&["GET", "PUT", "POST", "PATCH", "DELETE"]).to_string(), path: p.clone(), kind: "path-shared-with-a-mounted-application".into() });
        }
    }
    let reqs = base
        .into_iter()
        .map(|r| {
            let registered: Vec<String> = table.routes.iter().find(|e| appgen::greedy(std::slice::from_ref(e), &appgen::path_segments(&r.path)).is_some()).map(|e| e.methods.keys().cloned().collect()).unwrap_or_default();
            match t::weighted(&[4, 5, 1]) {
                0 => Req { method: if r.method == "OPTIONS" { "GET".into() } else { r.method }, path: r.path, acrm: None, acrh: None, kind: format!("simple/{}", r.kind), origin: 0, name_case: 0 },
                1 => {
                    let acrm = match t::weighted(&[5, 3, 1, 1]) {
                        0 if !registered.is_empty() => t::pick(&registered),
                        1 => t::pick(&["GET", "PUT", "POST", "PATCH", "DELETE"]).to_string(),
                        2 => t::pick(&["HEAD", "OPTIONS"]).to_string(),
                        _ => t::pick(&["get", "TRACE", "FOO", ""]).to_string(),
                    };
                    let acrh = if t::chance(1, 2) { Some(t::pick(&["X-Custom", "content-type, x-a", "Authorization", "X_Trace_Id", "content-type,x_api_key", "X-Api.Version", "Content-Type, X-Client~Build", "a!#$%&'*+.^_`|~0", "content-type\nx-request-id", "X-A, X-B\nX-C", "x-one\nx-two\nx-three"]).to_string()) } else { None };
                    Req { method: "OPTIONS".into(), path: r.path, acrm: Some(acrm), acrh, kind: format!("preflight/{}", r.kind), origin: 0, name_case: 0 }
                }
                _ => Req { method: "OPTIONS".into(), path: r.path, acrm: None, acrh: None, kind: format!("options/{}", r.kind), origin: 0, name_case: 0 },
            }
        })
        .map(|mut r: Req| {
            r.origin = t::weighted(&[2, 2, 2, 2, 1]) as u8;
            r.name_case = t::weighted(&[6, 2, 1, 1, 1]) as u8;
            r
        })
        .collect();
    let earlier: Vec<Policy> = if t::chance(1, 3) {
        (0..1 + t::draw(2))
            .map(|_| Policy { origin: if t::chance(2, 3) { "*".to_string() } else { "https://earlier.example".to_string() }, credentials: t::chance(3, 4), allow_headers: None, expose_headers: if t::chance(1, 2) { Some(vec!["X-Earlier".to_string()]) } else { None }, max_age: None, credentials_last: false })
            .collect()
    } else {
        Vec::new()
    };
    Scenario { policy, app, reqs, earlier, handlers_state_origin: t::weighted(&[4, 2, 1]) as u8, handlers_panic: t::chance(1, 4) }
}

pub fn run(cfg: &RunCfg, direct: Option<&serde_json::Value>) -> Outcome {
    let mut out = Outcome::new();
    let sc: Scenario = match direct {
        Some(v) => match serde_json::from_value(v.clone()) {
            Ok(s) => s,
            Err(e) => {
                out.verdict = Verdict::Inconclusive(format!("cannot decode scenario: {e}"));
                return out;
            }
        },
        None => generate(cfg, &mut out),
    };
    rt::mark_generated();
    execute(&sc, &mut out);
    out
}

fn leak(s: &str) -> &'static str {
    Box::leak(s.to_string().into_boxed_str())
}

fn build_cors(p: &Policy) -> CORS {
    let mut c = CORS::new(leak(&p.origin));
    if p.credentials && !p.credentials_last {
        c = c.AllowCredentials();
    }
    let arr = |v: &Vec<String>| -> Vec<&'static str> { v.iter().map(|s| leak(s)).collect() };
    if let Some(v) = &p.allow_headers {
        let a = arr(v);
        c = match a.len() {
            0 => c.AllowHeaders([]),
            1 => c.AllowHeaders([a[0]]),
            2 => c.AllowHeaders([a[0], a[1]]),
            _ => c.AllowHeaders([a[0], a[1], a[2]]),
        };
    }
    if let Some(v) = &p.expose_headers {
        let a = arr(v);
        c = match a.len() {
            0 => c.ExposeHeaders([]),
            1 => c.ExposeHeaders([a[0]]),
            2 => c.ExposeHeaders([a[0], a[1]]),
            _ => c.ExposeHeaders([a[0], a[1], a[2]]),
        };
    }
    if let Some(m) = p.max_age {
        c = c.MaxAge(m);
    }
    if p.credentials && p.credentials_last {
        c = c.AllowCredentials();
    }
    c
}

fn has_split(app: &AppSpec) -> bool {
    let mut seen: Vec<String> = Vec::new();
    for it in &app.items {
        match it {
            Item::Routes { path, .. } => {
                let u: String = path.split('/').map(|s| if s.starts_with(':') { ":" } else { s }).collect::<Vec<_>>().join("/");
                if seen.contains(&u) {
                    return true;
                }
                seen.push(u);
            }
            Item::Mount { app, .. } => {
                if has_split(app) {
                    return true;
                }
            }
        }
    }
    false
}

fn set_of(v: &str) -> BTreeSet<String> {
    v.split(',').map(|s| s.trim().to_string()).filter(|s| !s.is_empty()).collect()
}

fn execute(sc: &Scenario, out: &mut Outcome) {
    out.scenario = serde_json::to_value(sc).unwrap_or(serde_json::Value::Null);
    out.scenario_hash = rt::fnv64(serde_json::to_string(sc).unwrap_or_default().as_bytes());
    if has_split(&sc.app) {
        out.hazard("split-registration");
        out.probe("c14.split_registration");
    }
    if sc.policy.credentials {
        out.probe("c14.credentials_on");
    }
    if sc.policy.origin == "*" {
        out.probe("c14.wildcard_origin");
    }
    let table = appgen::table(&sc.app);
    appgen::ERRORING.with(|e| e.set(true));
    appgen::PANICKING.with(|e| e.set(sc.handlers_panic));
    match sc.handlers_state_origin {
        1 => {
            out.probe("c14.handler_states_the_policy_origin_itself");
            appgen::PRESET_ORIGIN.with(|p| *p.borrow_mut() = Some(sc.policy.origin.clone()));
        }
        2 => appgen::PRESET_ORIGIN.with(|p| *p.borrow_mut() = Some("https://elsewhere.example".to_string())),
        _ => {}
    }
    if !sc.earlier.is_empty() {
        out.probe("c14.policies_built_earlier_in_the_process");
    }
    let built = std::panic::catch_unwind(std::panic::AssertUnwindSafe(|| {
        for e in &sc.earlier {
            drop(build_cors(e));
        }
        appgen::build_root_with(&sc.app, (build_cors(&sc.policy),))
    }));
    let app = match built {
        Ok(a) => a,
        Err(_) => {
            let info = simcore::LAST_PANIC.with(|p| p.borrow_mut().take());
            out.violate("registration", "panic", format!("building the application panicked: {:?}", info.map(|i| i.message)));
            return;
        }
    };
    rt::serve(app);
    let obs: Rc<RefCell<Vec<Result<Resp, RecvErr>>>> = Rc::new(RefCell::new(Vec::new()));
    let o = obs.clone();
    let reqs = sc.reqs.clone();
    let policy_origin = sc.policy.origin.clone();
    simcore::spawn_task("client", "client", async move {
        let mut c: Option<Client> = None;
        for r in &reqs {
            if c.is_none() {
                match Client::connect(rt::ADDR, ConnCfg::default()).await {
                    Ok(x) => c = Some(x),
                    Err(_) => return,
                }
            }
            let cl = c.as_mut().unwrap();
            let nc = r.name_case;
            let cased = move |name: &str| -> String {
                match nc {
                    1 => name.to_ascii_lowercase(),
                    2 => name.to_ascii_uppercase(),
                    3 => name.chars().enumerate().map(|(i, c)| if i == 0 { c.to_ascii_uppercase() } else { c.to_ascii_lowercase() }).collect(),
                    4 => name.chars().enumerate().map(|(i, c)| if i % 2 == 0 { c.to_ascii_lowercase() } else { c.to_ascii_uppercase() }).collect(),
                    _ => name.to_string(),
                }
            };
            let origin_line = match r.origin {
                1 => String::new(),
                2 if policy_origin != "*" => format!("{}: {policy_origin}\r\n", cased("Origin")),
                3 => format!("{}: https://other.example\r\n", cased("Origin")),
                4 => format!("{}: null\r\n", cased("Origin")),
                _ => format!("{}: https://example.com\r\n", cased("Origin")),
            };
            let mut s = format!("{} {} HTTP/1.1\r\nHost: s\r\n{origin_line}", r.method, r.path);
            if let Some(m) = &r.acrm {
                s.push_str(&format!("{}: {m}\r\n", cased("Access-Control-Request-Method")));
            }
            if let Some(h) = &r.acrh {
                // (wave 16) a list-valued field may come as several field lines (RFC 9110 5.3): `\n` in the scenario's value
                // separates the lines; what is requested is the lines joined in order (C02: repeated headers are joined)
                for line in h.split('\n') {
                    s.push_str(&format!("{}: {line}\r\n", cased("Access-Control-Request-Headers")));
                }
            }
            s.push_str("\r\n");
            cl.send(s.as_bytes(), 0);
            // (a response whose end cannot be determined is reported after a short wait, see the framing rule below)
            let resp = cl.recv(r.method == "HEAD", 2 * SEC).await;
            let reusable = resp.as_ref().map(|x| x.framing != Framing::Undetermined).unwrap_or(false);
            o.borrow_mut().push(resp);
            if !reusable {
                if let Some(mut old) = c.take() {
                    old.send_fin(0);
                    let _ = old.drain_until_close(DEFAULT_TIMEOUT).await;
                }
            }
        }
        if let Some(mut old) = c.take() {
            old.send_fin(0);
            let _ = old.drain_until_close(DEFAULT_TIMEOUT).await;
        }
    });
    let end = simcore::run();
    appgen::ERRORING.with(|e| e.set(false));
    // the scripted handler panic is user code misbehaving, not the framework
    let panics: Vec<_> = rt::panicked_tasks().into_iter().filter(|p| !p.4.starts_with("scripted handler panic")).collect();
    if let Some((_, _, file, _, msg)) = panics.first() {
        out.violate("no-panic", rt::panic_site(file, msg), format!("a server task panicked at {file}: {msg}"));
        return;
    }
    if matches!(end, simcore::EndReason::StepCap | simcore::EndReason::TimeCap) {
        out.verdict = Verdict::Inconclusive(format!("{end:?}"));
        return;
    }
    let obs = obs.borrow();
    let (mut pre_ok, mut pre_fail) = (0, 0);
    for (k, r) in sc.reqs.iter().enumerate() {
        if r.name_case != 0 {
            out.probe("c14.header_names_in_another_letter_case");
        }
        let Some(resp) = obs.get(k) else { break };
        let kind0 = r.kind.split('/').next().unwrap_or("").to_string();
        let desc = format!("request {k} ({}: {} {} ACRM {:?} ACRH {:?}; policy {:?})", r.kind, r.method, r.path, r.acrm, r.acrh, sc.policy);
        let resp = match resp {
            Ok(x) => x,
            Err(e) => {
                // the request went to a handler that panics: the connection is dropped, nothing is owed
                let may_panic = sc.handlers_panic && matches!(e, RecvErr::Closed(_)) && crate::props::c01::expectations(&table, &r.method, &r.path).0.iter().any(|a| matches!(a, Some((id, _)) if id % 5 == 3));
                if may_panic {
                    out.probe("c14.handler_panicked_no_response");
                    continue;
                }
                out.violate("answered", format!("{kind0}/no-response"), format!("{desc}: {}", format!("{e:?}").chars().take(100).collect::<String>()));
                return;
            }
        };
        // 1. the three policy headers on every response
        let acao = resp.header_all("Access-Control-Allow-Origin");
        if acao != vec![sc.policy.origin.as_str()] {
            out.violate("policy-headers", format!("{kind0}/allow-origin"), format!("{desc}: Access-Control-Allow-Origin {:?} (status {})", acao, resp.status));
            return;
        }
        let want_cred = sc.policy.credentials && sc.policy.origin != "*";
        let acac = resp.header_all("Access-Control-Allow-Credentials");
        if (want_cred && acac != vec!["true"]) || (!want_cred && !acac.is_empty()) {
            out.violate("policy-headers", format!("{kind0}/allow-credentials"), format!("{desc}: Access-Control-Allow-Credentials {:?}, expected {}", acac, if want_cred { "true" } else { "absent" }));
            return;
        }
        let aceh = resp.header_all("Access-Control-Expose-Headers");
        match &sc.policy.expose_headers {
            Some(v) => {
                let want: BTreeSet<String> = v.iter().cloned().collect();
                let empty_ok = want.is_empty() && aceh.iter().all(|h| set_of(h).is_empty());
                if !empty_ok && (aceh.len() != 1 || set_of(aceh[0]) != want) {
                    out.violate("policy-headers", format!("{kind0}/expose-headers"), format!("{desc}: Access-Control-Expose-Headers {:?}, expected {:?}", aceh, v));
                    return;
                }
            }
            None => {
                if !aceh.is_empty() {
                    out.violate("policy-headers", format!("{kind0}/expose-headers"), format!("{desc}: Access-Control-Expose-Headers {:?} though none configured", aceh));
                    return;
                }
            }
        }
        let (alts, ambiguous) = c01::expectations(&table, if r.method == "OPTIONS" { "GET" } else { &r.method }, &r.path);
        let segs = appgen::path_segments(&r.path);
        match kind0.as_str() {
            "simple" => {
                if ambiguous {
                    continue;
                }
                match (&alts[0], resp.header("X-Handler")) {
                    (Some(_), Some(_)) => {
                        if resp.status == 500 {
                            out.probe("c14.simple_500");
                        } else {
                            out.probe("c14.simple_hit");
                        }
                    }
                    (None, None) => out.probe("c14.simple_404"),
                    _ => {}
                }
            }
            "preflight" => {
                // R: methods registered on the route matching the path (union over pieces of registration)
                let route_g = appgen::greedy(&table.routes, &segs);
                let route_b = appgen::backtrack(&table.routes, &segs);
                if route_g.map(|r| &r.segs) != route_b.map(|r| &r.segs) || c01::mount_points_change_routing(&table, &segs) {
                    continue; // routing-ambiguous
                }
                let registered: BTreeSet<String> = match route_g {
                    Some(rt_) => table.routes.iter().filter(|e| e.segs == rt_.segs).flat_map(|e| e.methods.keys().cloned()).collect(),
                    None => BTreeSet::new(),
                };
                let m = r.acrm.clone().unwrap_or_default();
                let ok2xx = (200..300).contains(&resp.status);
                let check_success_headers = |out: &mut Outcome| -> bool {
                    let mut want: BTreeSet<String> = registered.clone();
                    if want.contains("GET") {
                        want.insert("HEAD".into());
                    }
                    want.insert("OPTIONS".into());
                    let acam = resp.header_all("Access-Control-Allow-Methods");
                    if acam.len() != 1 || set_of(acam[0]) != want {
                        out.violate("preflight", "allow-methods", format!("{desc}: Access-Control-Allow-Methods {:?}, registered there {:?} (so expected {:?})", acam, registered, want));
                        return false;
                    }
                    let acah = resp.header_all("Access-Control-Allow-Headers");
                    let want_h: Option<BTreeSet<String>> = match (&sc.policy.allow_headers, &r.acrh) {
                        (Some(v), _) => Some(v.iter().cloned().collect()),
                        (None, Some(h)) => Some(set_of(&h.replace('\n', ", "))),
                        (None, None) => None,
                    };
                    match want_h {
                        Some(w) => {
                            // an empty configured list allows nothing: the header may be empty or absent
                            let empty_ok = w.is_empty() && sc.policy.allow_headers.is_some() && acah.iter().all(|h| set_of(h).is_empty());
                            if w.is_empty() && sc.policy.allow_headers.is_some() && r.acrh.is_some() {
                                out.probe("c14.empty_allow_list_with_requested_headers");
                            }
                            if !empty_ok && (acah.len() != 1 || set_of(acah[0]) != w) {
                                out.violate("preflight", "allow-headers", format!("{desc}: Access-Control-Allow-Headers {:?}, expected {:?}", acah, w));
                                return false;
                            }
                            if sc.policy.allow_headers.is_none() {
                                out.probe("c14.echoed_request_headers");
                            }
                        }
                        None => {
                            if !acah.is_empty() {
                                out.violate("preflight", "allow-headers", format!("{desc}: Access-Control-Allow-Headers {:?} though neither configured nor requested", acah));
                                return false;
                            }
                        }
                    }
                    let acma = resp.header_all("Access-Control-Max-Age");
                    let want_ma: Vec<String> = sc.policy.max_age.map(|m| vec![m.to_string()]).unwrap_or_default();
                    if acma.iter().map(|s| s.to_string()).collect::<Vec<_>>() != want_ma {
                        out.violate("preflight", "max-age", format!("{desc}: Access-Control-Max-Age {:?}, expected {:?}", acma, want_ma));
                        return false;
                    }
                    // "succeeds without a body": the client must be able to tell that there is none
                    if resp.framing == Framing::Undetermined {
                        out.violate("preflight", "undeterminable-end", format!("{desc}: the successful preflight response (status {}) declares neither Content-Length nor chunked coding; on a keep-alive connection the client cannot tell that it has no body", resp.status));
                        return false;
                    }
                    if !resp.body.is_empty() {
                        out.violate("preflight", "body-present", format!("{desc}: the successful preflight response carries {} body bytes", resp.body.len()));
                        return false;
                    }
                    true
                };
                let open = (m == "HEAD" && registered.contains("GET")) || m == "OPTIONS";
                if route_g.is_none() {
                    if ok2xx {
                        out.violate("preflight", "succeeded-for-unknown-path", format!("{desc}: no route matches but the preflight got {}", resp.status));
                        return;
                    }
                    if !(400..500).contains(&resp.status) {
                        out.violate("preflight", format!("unknown-path-status-{}", resp.status), format!("{desc}: expected 4xx"));
                        return;
                    }
                    pre_fail += 1;
                    out.probe("c14.preflight_unknown_path");
                } else if open {
                    if ok2xx && !check_success_headers(out) {
                        return;
                    }
                } else if registered.contains(&m) {
                    if !ok2xx {
                        out.violate("preflight", format!("refused-registered-method/status-{}", resp.status), format!("{desc}: {m} is registered there ({registered:?}) but the preflight got {}", resp.status));
                        return;
                    }
                    if !check_success_headers(out) {
                        return;
                    }
                    pre_ok += 1;
                    out.probe("c14.preflight_ok");
                    if route_g.map(|x| x.apps.len() > 1).unwrap_or(false) {
                        out.probe("c14.mounted_route_preflight");
                    }
                } else {
                    if ok2xx {
                        out.violate("preflight", "succeeded-for-unregistered-method", format!("{desc}: {m:?} is not registered there ({registered:?}) but the preflight got {}", resp.status));
                        return;
                    }
                    if !(400..500).contains(&resp.status) {
                        out.violate("preflight", format!("unregistered-method-status-{}", resp.status), format!("{desc}: expected 4xx"));
                        return;
                    }
                    pre_fail += 1;
                    out.probe("c14.preflight_unregistered_method");
                }
            }
            _ => {}
        }
        out.states.push(format!("{}|{}", r.kind, resp.status / 100));
    }
    out.nontrivial = pre_ok > 0 && pre_fail > 0;
}
