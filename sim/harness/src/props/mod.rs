//! Property scenarios. Each `run` generates a scenario from the tape, executes it in the installed
//! world and evaluates its oracle.

use crate::rt::{Outcome, RunCfg};

pub mod c01;
pub mod c02;
pub mod c03;
pub mod c04;
pub mod c05;
pub mod c06;
pub mod c07;
pub mod c12;
pub mod c13;
pub mod c14;
pub mod c17;
pub mod c18;
pub mod c19;
pub mod c20;

pub struct PropInfo {
    pub quick_runs: u64,
    pub thorough_runs: u64,
    pub rule: &'static str,
    pub state_measure: &'static str,
    pub assumptions: &'static [&'static str],
    pub expected_probes: &'static [&'static str],
}

pub fn info(prop: &str) -> Option<PropInfo> {
    match prop {
        "C01" => Some(c01::INFO),
        "C02" => Some(c02::INFO),
        "C03" => Some(c03::INFO),
        "C04" => Some(c04::INFO),
        "C05" => Some(c05::INFO),
        "C06" => Some(c06::INFO),
        "C07" => Some(c07::INFO),
        "C12" => Some(c12::INFO),
        "C13" => Some(c13::INFO),
        "C14" => Some(c14::INFO),
        "C17" => Some(c17::INFO),
        "C18" => Some(c18::INFO),
        "C19" => Some(c19::INFO),
        "C20" => Some(c20::INFO),
        _ => None,
    }
}

pub fn run(prop: &str, cfg: &RunCfg, direct: Option<&serde_json::Value>) -> Outcome {
    match prop {
        "C01" => c01::run(cfg, direct),
        "C02" => c02::run(cfg, direct),
        "C03" => c03::run(cfg, direct),
        "C04" => c04::run(cfg, direct),
        "C05" => c05::run(cfg, direct),
        "C06" => c06::run(cfg, direct),
        "C07" => c07::run(cfg, direct),
        "C12" => c12::run(cfg, direct),
        "C13" => c13::run(cfg, direct),
        "C14" => c14::run(cfg, direct),
        "C17" => c17::run(cfg, direct),
        "C18" => c18::run(cfg, direct),
        "C19" => c19::run(cfg, direct),
        "C20" => c20::run(cfg, direct),
        _ => panic!("unknown property {prop}"),
    }
}

pub const ALL: &[&str] = &["C01", "C02", "C03", "C04", "C05", "C06", "C07", "C12", "C13", "C14", "C17", "C18", "C19", "C20"];
