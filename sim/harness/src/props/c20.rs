//! C20 — date and number formatters used on the wire are exact (claimed with explicit bounds).
//! The date is a function of the clock, which the simulator owns; decimal and hex renderings are observed
//! as Content-Length values and chunk-size lines of responses whose sizes the tape chooses.

use super::c03::imf_fixdate;
use super::PropInfo;
use crate::client::{Client, Framing, RecvErr, Resp, DEFAULT_TIMEOUT};
use crate::rt::{self, t, Outcome, RunCfg, Verdict};
use ohkami::format::Query;
use ohkami::sse::DataStream;
use ohkami::{Ohkami, Response, Route};
use serde::{Deserialize, Serialize};
use simcore::ConnCfg;
use std::cell::RefCell;
use std::rc::Rc;

pub const INFO: PropInfo = PropInfo {
    quick_runs: 20_000,
    thorough_runs: 220_000,
    rule: "each run = 24 requests on one keep-alive connection, each at a simulated wall-clock instant chosen by the tape (quick: biased to month/year/century/leap boundaries and random; thorough: additionally every day number 0..2,932,896 once and every second of day on selected days, enumerated by run index) \
           fetching a body of a chosen length (Content-Length = decimal rendering) or an SSE message of a chosen length (chunk-size line = hex rendering); non-trivial = all three renderings were observed; distinct = distinct (instant, kind, size) triples, hashed per run",
    state_measure: "decades of the date x digit counts of decimal and hex renderings reached",
    assumptions: &[
        "decimal and hexadecimal renderings are only observable for sizes a response can have: up to 16 MiB here; values from 2^24 to 2^64 are NOT covered (DESIGN.md 5.C20) — a change that breaks itoa/hexize only for such values is outside this check",
        "the date is covered for every day of [1970, 9999] in the thorough tier and by biased sampling in the quick tier",
        "the reference date formatter (civil-from-days) is cross-checked against Python's email.utils once per batch (tools/selftest.py)",
    ],
    expected_probes: &["c20.leap_day", "c20.century_boundary", "c20.year_9999", "c20.epoch", "c20.len_power_of_ten", "c20.hex_power_of_sixteen", "c20.len_zero", "c20.hex_multi_line_message", "c20.file_served_by_a_mounted_directory", "c20.body_replacing_an_earlier_one", "c20.length_of_a_gigabyte_or_more"],
};

#[derive(Clone, Debug, Serialize, Deserialize)]
pub enum Kind {
    Len(usize),
    Hex(usize),
    /// an SSE message of `lines` lines of `n` bytes each: the chunk is lines * (6 + n + 1) + 1 bytes
    HexLines(usize, usize),
    /// a file of this many bytes served by a mounted directory (one of FILE_SIZES): responses assembled from parts that
    /// were prepared at start-up must still carry the date of the response
    File(usize),
    /// a text body of `.1` bytes that replaces an earlier one of `.0` bytes on the same response (what is rendered must be
    /// the size that is sent, whatever was rendered before)
    LenAfter(usize, usize),
    /// HEAD for a body of this many bytes (a gigabyte and more: the pages of `vec![0; n]` are never touched and HEAD sends
    /// none of them, but the length is rendered)
    HeadBig(usize),
}
const FILE_SIZES: [usize; 9] = [0, 1, 9, 10, 99, 100, 4095, 4096, 65_536];
#[derive(Clone, Debug, Serialize, Deserialize)]
pub struct Probe {
    pub at: u64,
    pub kind: Kind,
}
#[derive(Clone, Debug, Serialize, Deserialize)]
pub struct Scenario {
    pub probes: Vec<Probe>,
}

const MAX_T: u64 = 253_402_300_799;
const DAYS: u64 = 2_932_897;
const PER_RUN: usize = 24;

fn days_from_civil(y: i64, m: i64, d: i64) -> i64 {
    let y = if m <= 2 { y - 1 } else { y };
    let era = y.div_euclid(400);
    let yoe = y.rem_euclid(400);
    let doy = (153 * (if m > 2 { m - 3 } else { m + 9 }) + 2) / 5 + d - 1;
    let doe = yoe * 365 + yoe / 4 - yoe / 100 + doy;
    era * 146_097 + doe - 719_468
}

fn gen_instant() -> u64 {
    match t::weighted(&[3, 3, 2, 2, 1]) {
        0 => t::range(0, MAX_T),
        1 => {
            // around a month / year / century / leap boundary
            let y = t::pick(&[1970i64, 1972, 1999, 2000, 2001, 2024, 2038, 2099, 2100, 2101, 2400, 9999, 4000, 1980]);
            let (m, d) = t::pick(&[(1i64, 1i64), (2, 28), (2, 29), (3, 1), (12, 31), (4, 30), (7, 31), (8, 1)]);
            let d = if m == 2 && d == 29 && !(y % 4 == 0 && (y % 100 != 0 || y % 400 == 0)) { 28 } else { d };
            let day = days_from_civil(y, m, d).max(0) as u64;
            let sod = t::pick(&[0u64, 1, 59, 60, 3599, 3600, 43_200, 86_399]);
            (day * 86_400 + sod).min(MAX_T)
        }
        2 => t::pick(&[0u64, 1, 86_399, 86_400, 951_782_399, 951_782_400, 951_868_800, 4_102_444_799, 4_102_444_800, MAX_T, MAX_T - 1, MAX_T - 86_400, 2_147_483_647, 2_147_483_648]),
        3 => 1_700_000_000 + t::range(0, 400_000_000),
        _ => t::range(0, DAYS - 1) * 86_400 + t::range(0, 86_399),
    }
}

fn gen_kind(thorough: bool) -> Kind {
    let big = if thorough { 1 } else { 0 };
    match t::weighted(&[4, 3, 2, big, 3, 2, big, 3, 2]) {
        8 if t::chance(1, 6) => Kind::HeadBig(t::pick(&[999_999_999usize, 1_000_000_000, 1_234_567_890, 2_147_483_647, 2_147_483_648, 4_294_967_295, 4_294_967_296, 9_999_999_999])),
        8 if t::chance(1, 2) => Kind::LenAfter(t::pick(&[1usize, 10, 100, 1000, 12345]), t::pick(&[0usize, 0, 1, 9, 10, 99, 100, 999])),
        8 => Kind::File(t::pick(&FILE_SIZES)),
        7 => {
            // several lines: the framed size is what must be rendered, not the size of the text
            let lines = t::range(2, 6) as usize;
            let target = match t::draw(3) {
                0 => 16usize.pow(t::range(1, 3) as u32) as i64 + t::range(0, 12) as i64 - 4,
                1 => t::range(12, 400) as i64,
                _ => t::range(12, 5000) as i64,
            };
            // choose n so that lines * (n + 7) + 1 is close to the target
            let n = ((target - 1) / lines as i64 - 7).max(0) as usize;
            Kind::HexLines(n, lines)
        }
        0 => Kind::Len(t::range(0, 20_000) as usize),
        1 => {
            let p = 10usize.pow(t::range(0, 5) as u32);
            Kind::Len((p as i64 + t::range(0, 2) as i64 - 1).max(0) as usize)
        }
        2 => Kind::Len(t::range(0, 300) as usize),
        3 => {
            let p = 10usize.pow(t::range(6, 7) as u32);
            Kind::Len((p as i64 + t::range(0, 2) as i64 - 1) as usize)
        }
        4 => Kind::Hex(t::range(0, 20_000) as usize),
        5 => {
            let p = 16usize.pow(t::range(1, 4) as u32);
            Kind::Hex((p as i64 + t::range(0, 2) as i64 - 1 - 8).max(0) as usize)
        }
        _ => {
            let p = 16usize.pow(t::range(5, 6) as u32);
            Kind::Hex((p as i64 + t::range(0, 2) as i64 - 1 - 8) as usize)
        }
    }
}

pub fn generate(cfg: &RunCfg, _out: &mut Outcome) -> Scenario {
    let mut probes = Vec::new();
    // enumeration blocks of the thorough tier
    let day_runs = (DAYS + PER_RUN as u64 - 1) / PER_RUN as u64; // every day once
    let special_days: [u64; 12] = [0, 59, 365, 11_016, 11_017, 10_957, 47_540, 47_541, 2_932_896, 19_782, 789, 24_836];
    let sec_runs = (special_days.len() as u64 * 86_400) / PER_RUN as u64;
    for k in 0..PER_RUN {
        let at = if cfg.thorough && cfg.run < day_runs {
            let day = (cfg.run * PER_RUN as u64 + k as u64).min(DAYS - 1);
            day * 86_400 + t::range(0, 86_399)
        } else if cfg.thorough && cfg.run < day_runs + sec_runs {
            let idx = (cfg.run - day_runs) * PER_RUN as u64 + k as u64;
            let day = special_days[(idx / 86_400) as usize % special_days.len()];
            day * 86_400 + idx % 86_400
        } else {
            gen_instant()
        };
        // megabyte-sized bodies (10^6, 10^7, 16^5, 16^6 and neighbours) in every sixth run of the thorough tier only
        probes.push(Probe { at: at.min(MAX_T), kind: gen_kind(cfg.thorough && cfg.run % 6 == 0) });
    }
    Scenario { probes }
}

pub fn run(cfg: &RunCfg, direct: Option<&serde_json::Value>) -> Outcome {
    let mut out = Outcome::new();
    let sc: Scenario = match direct {
        Some(v) => match serde_json::from_value(v.clone()) {
            Ok(s) => s,
            Err(e) => {
                out.verdict = Verdict::Inconclusive(format!("cannot decode scenario: {e}"));
                return out;
            }
        },
        None => generate(cfg, &mut out),
    };
    rt::mark_generated();
    execute(&sc, &mut out);
    out
}

#[derive(Deserialize)]
struct N {
    n: usize,
    l: Option<usize>,
}

fn execute(sc: &Scenario, out: &mut Outcome) {
    out.scenario = serde_json::to_value(sc).unwrap_or(serde_json::Value::Null);
    out.scenario_hash = rt::fnv64(serde_json::to_string(sc).unwrap_or_default().as_bytes());
    // a small directory, mounted while the wall clock reads an instant none of the probes uses
    let base = std::path::PathBuf::from(format!("/verif/target/simfs/{}", std::process::id()));
    let _ = std::fs::remove_dir_all(&base);
    let dir = base.join("c20");
    let _ = std::fs::create_dir_all(&dir);
    for n in FILE_SIZES {
        let _ = std::fs::write(dir.join(format!("f{n}.txt")), "z".repeat(n));
    }
    simcore::with(|w| w.wall_frozen = Some(1_000_000_007));
    let dir_lit: &'static str = Box::leak(dir.to_string_lossy().to_string().into_boxed_str());
    let app = Ohkami::new((
        "/static".Dir(dir_lit),
        "/len".GET(|Query(q): Query<N>| async move { Response::OK().with_text("x".repeat(q.n)) }),
        "/bigz".GET(|Query(q): Query<N>| async move { Response::OK().with_payload("application/octet-stream", vec![0u8; q.n]) }),
        "/len2".GET(|Query(q): Query<N>| async move { Response::OK().with_text("p".repeat(q.l.unwrap_or(0))).with_text("x".repeat(q.n)) }),
        "/sse".GET(|Query(q): Query<N>| async move {
            let text = vec!["y".repeat(q.n); q.l.unwrap_or(1)].join("\n");
            let ds: DataStream<String> = DataStream::new(move |mut s| async move { s.send(text) });
            ds
        }),
    ));
    rt::serve(app);
    let obs: Rc<RefCell<Vec<Result<Resp, RecvErr>>>> = Rc::new(RefCell::new(Vec::new()));
    let o = obs.clone();
    let probes = sc.probes.clone();
    simcore::spawn_task("client", "client", async move {
        let Ok(mut c) = Client::connect(rt::ADDR, ConnCfg::default()).await else { return };
        for p in &probes {
            // clock fault: jump the wall clock to the chosen instant and freeze it while the request is handled
            simcore::with(|w| {
                w.wall_frozen = Some(p.at);
                w.count("fault.clock_jump");
            });
            let target = match p.kind {
                Kind::Len(n) => format!("/len?n={n}"),
                Kind::Hex(n) => format!("/sse?n={n}"),
                Kind::HexLines(n, l) => format!("/sse?n={n}&l={l}"),
                Kind::File(n) => format!("/static/f{n}.txt"),
                Kind::LenAfter(prev, n) => format!("/len2?n={n}&l={prev}"),
                Kind::HeadBig(n) => format!("/bigz?n={n}"),
            };
            let head = matches!(p.kind, Kind::HeadBig(_));
            c.send(format!("{} {target} HTTP/1.1\r\nHost: s\r\n\r\n", if head { "HEAD" } else { "GET" }).as_bytes(), 0);
            let r = c.recv(head, DEFAULT_TIMEOUT).await;
            let ok = r.is_ok();
            o.borrow_mut().push(r);
            if !ok {
                return;
            }
        }
        c.send_fin(0);
        let _ = c.drain_until_close(DEFAULT_TIMEOUT).await;
    });
    let end = simcore::run();
    let _ = std::fs::remove_dir_all(&base);
    let panics = rt::panicked_tasks();
    if let Some((_, _, file, _, msg)) = panics.first() {
        out.violate("no-panic", rt::panic_site(file, msg), format!("a server task panicked at {file}: {msg}"));
        return;
    }
    if matches!(end, simcore::EndReason::StepCap | simcore::EndReason::TimeCap) {
        out.verdict = Verdict::Inconclusive(format!("{end:?}"));
        return;
    }
    let obs = obs.borrow();
    let (mut saw_date, mut saw_len, mut saw_hex) = (false, false, false);
    for (k, p) in sc.probes.iter().enumerate() {
        let Some(resp) = obs.get(k) else { break };
        let resp = match resp {
            Ok(x) => x,
            Err(e) => {
                out.violate("answered", "no-response", format!("probe {k} {:?}: {}", p, format!("{e:?}").chars().take(100).collect::<String>()));
                return;
            }
        };
        if resp.status != 200 {
            out.violate("answered", format!("status-{}", resp.status), format!("probe {k} {:?}", p));
            return;
        }
        // date
        let want = imf_fixdate(p.at);
        let got = resp.header("date").unwrap_or("");
        if got != want {
            out.violate("imf-fixdate", "date-differs", format!("at unix time {}: Date {:?}, RFC 9110 IMF-fixdate is {:?}", p.at, got, want));
            return;
        }
        saw_date = true;
        let day = p.at / 86_400;
        out.states.push(format!("date-decade-{}", &want[12..15]));
        if want[5..11] == *"29 Feb" {
            out.probe("c20.leap_day");
        }
        if [10_957u64, 47_482, 47_541, 83_966].contains(&day) || want[5..16].ends_with("00") && want[5..11] == *"01 Jan" {
            out.probe("c20.century_boundary");
        }
        if want[12..16] == *"9999" {
            out.probe("c20.year_9999");
        }
        if p.at < 86_400 {
            out.probe("c20.epoch");
        }
        match p.kind {
            Kind::File(n) => {
                out.probe("c20.file_served_by_a_mounted_directory");
                let cl = resp.header("content-length").unwrap_or("");
                if cl != n.to_string() || resp.body.len() != n {
                    out.violate("decimal", "content-length-differs", format!("a file of {n} bytes is announced as Content-Length {:?} ({} bytes arrived)", cl, resp.body.len()));
                    return;
                }
            }
            Kind::HeadBig(n) => {
                out.probe("c20.length_of_a_gigabyte_or_more");
                let cl = resp.header("content-length").unwrap_or("");
                if cl != n.to_string() {
                    out.violate("decimal", "content-length-differs", format!("a body of {n} bytes is announced (to HEAD) as Content-Length {:?}", cl));
                    return;
                }
            }
            Kind::LenAfter(_, n) => {
                out.probe("c20.body_replacing_an_earlier_one");
                let cl = resp.header("content-length").unwrap_or("");
                if cl != n.to_string() || resp.body.len() != n {
                    out.violate("decimal", "content-length-differs", format!("a body of {n} bytes (replacing an earlier one) is announced as Content-Length {:?} ({} bytes arrived)", cl, resp.body.len()));
                    return;
                }
            }
            Kind::Len(n) => {
                let cl = resp.header("content-length").unwrap_or("");
                if cl != n.to_string() || resp.body.len() != n {
                    out.violate("decimal", "content-length-differs", format!("a body of {n} bytes is announced as Content-Length {:?} ({} bytes arrived)", cl, resp.body.len()));
                    return;
                }
                saw_len = true;
                out.states.push(format!("dec-digits-{}", cl.len()));
                if n == 0 {
                    out.probe("c20.len_zero");
                }
                if n > 1 && (n.to_string().trim_start_matches('1').chars().all(|c| c == '0') && n.to_string().starts_with('1')) {
                    out.probe("c20.len_power_of_ten");
                }
            }
            Kind::Hex(_) | Kind::HexLines(..) => {
                // one message of n bytes without line breaks is one chunk of "data: " + n + "\n\n" = n + 8 bytes;
                // l lines of n bytes are l * ("data: " + n + "\n") + "\n"
                let size = match p.kind {
                    Kind::Hex(n) => n + 8,
                    Kind::HexLines(n, l) => l * (n + 7) + 1,
                    _ => unreachable!(),
                };
                if matches!(p.kind, Kind::HexLines(..)) {
                    out.probe("c20.hex_multi_line_message");
                }
                let raw = &resp.raw[resp.head_len.min(resp.raw.len())..];
                let line_end = raw.windows(2).position(|w| w == b"\r\n").unwrap_or(0);
                let line = String::from_utf8_lossy(&raw[..line_end]).into_owned();
                let sizes = match &resp.framing {
                    Framing::Chunked(s) => s.clone(),
                    _ => vec![],
                };
                if line != format!("{size:x}") || sizes != vec![size, 0] {
                    out.violate("hexadecimal", "chunk-size-differs", format!("a chunk of {size} bytes is announced by the chunk-size line {:?} (canonical lowercase hex is {:x}); decoded chunk sizes {:?}", line, size, sizes));
                    return;
                }
                saw_hex = true;
                out.states.push(format!("hex-digits-{}", line.len()));
                if size.is_power_of_two() && size.trailing_zeros() % 4 == 0 {
                    out.probe("c20.hex_power_of_sixteen");
                }
            }
        }
    }
    out.nontrivial = saw_date && saw_len && saw_hex;
}
