//! C01 — routing dispatches each request to the handler of the matching route.
//! Generated route sets (nested mounts, method subsets, two registration orders as two servers in one
//! world) against the segment-wise reference router, on live keep-alive connections.

use super::PropInfo;
use crate::appgen::{self, AppSpec, FangSpec, HandlerSpec, Item, Seg};
use crate::client::{Client, RecvErr, Resp, DEFAULT_TIMEOUT};
use crate::reqmodel::percent_decode;
use crate::rt::{self, t, Outcome, RunCfg, Verdict};
use serde::{Deserialize, Serialize};
use simcore::ConnCfg;
use std::cell::RefCell;
use std::collections::BTreeMap;
use std::rc::Rc;

pub const INFO: PropInfo = PropInfo {
    quick_runs: 40_000,
    thorough_runs: 2_000_000,
    rule: "each run = one generated application (1..14 routes of static/:param segments chosen to collide on byte prefixes, depth 1..4, method subsets, 0..2 levels of mounts) served twice (two registration orders, two listeners) \
           and 4..24 requests (hits with random param values, near misses) over 1..3 keep-alive connections per server; non-trivial = at least one request reached a user handler and one was refused; \
           distinct = distinct hash of (application, requests)",
    state_measure: "router shapes by (max depth, mounts, param-next-to-static sibling, compression candidate) x near-miss kinds used",
    assumptions: &[
        "at most 2 param segments on any full route (README: ohkami handles at most 2 path params)",
        "route segments over [A-Za-z0-9._-] with alphanumeric ends; no two routes that ohkami itself rejects at registration",
        "every mount prefix is used by exactly one application and no other application registers routes under it; an application with a param-prefix mount registers no other first segment",
        "where greedy descent (prefer static, never backtrack) finds nothing but a backtracking match exists, or where the statically preferred route lacks the method but another matching route has it, both readings of the statement are accepted (counted as ambiguous)",
    ],
    expected_probes: &["c01.hit", "c01.miss_404", "c01.head_on_get", "c01.static_prefix_near_miss", "c01.param_after_other_shape", "c01.trailing_slash", "c01.mounted_route_hit", "c01.ambiguous_zone", "c01.static_next_to_param"],
};

#[derive(Clone, Debug, Serialize, Deserialize)]
pub struct Req {
    pub method: String,
    pub path: String,
    pub kind: String,
}
#[derive(Clone, Debug, Serialize, Deserialize)]
pub struct Scenario {
    pub app: AppSpec,
    /// the same application with every item list permuted
    pub app2: AppSpec,
    /// requests per connection
    pub conns: Vec<Vec<Req>>,
}

// the whole segment alphabet: digits (which sort below ':' and '/'), upper case (between digits and lower case),
// '.', '-', '_' inside; byte prefixes of each other; one-character names
const STATICS: [&str; 24] = ["users", "users2", "user", "u", "abc", "abcd", "a.b", "a-b", "a", "b", "api", "v1", "x", "ab", "404", "1", "0", "9z", "Z", "Users", "A", "a_b", "v1.2", "z9"];
const METHODS5: [&str; 5] = ["GET", "PUT", "POST", "PATCH", "DELETE"];

pub struct Gen {
    pub next_handler: u32,
    pub next_app: u32,
    pub next_fang: u32,
}

fn gen_methods(g: &mut Gen, route_params: usize, fangs_ok: bool) -> BTreeMap<String, HandlerSpec> {
    let mut m = BTreeMap::new();
    let n = 1 + t::weighted(&[5, 3, 1, 1]);
    for _ in 0..n {
        let method = if t::chance(1, 2) { "GET" } else { t::pick(&METHODS5) };
        g.next_handler += 1;
        let n_params = if route_params == 0 { 0 } else { t::range(if t::chance(1, 4) { 0 } else { route_params as u64 }, route_params as u64) as u8 };
        let local_fangs: Vec<FangSpec> = if fangs_ok {
            (0..t::weighted(&[6, 2, 1, 1, 1]))
                .map(|_| {
                    g.next_fang += 1;
                    FangSpec { id: g.next_fang, kind: if t::chance(1, 3) { appgen::FangKind::Action } else { appgen::FangKind::Trace }, yields: t::chance(1, 4) }
                })
                .collect()
        } else {
            vec![]
        };
        m.insert(method.to_string(), HandlerSpec { id: g.next_handler, n_params, local_fangs });
    }
    m
}

fn unify(lit: &str) -> String {
    lit.split('/').map(|s| if s.starts_with(':') { ":" } else { s }).collect::<Vec<_>>().join("/")
}

/// generate one application; `params_used` = params already captured by the mount prefixes above
pub fn gen_app(g: &mut Gen, depth: usize, params_used: usize, fangs_ok: bool) -> AppSpec {
    g.next_app += 1;
    let id = g.next_app;
    let mut items: Vec<Item> = Vec::new();
    let mut patterns: Vec<String> = Vec::new();
    // a mounted application may consist of fangs (and further mounts) only: its fangs still govern everything under its prefix
    // (wave 16) one application in eight is wide: a dozen routes over a dozen first segments, so that a node of the tree gets
    // eight and more static children (some of them chains without a handler in the middle) — where a router may switch
    // to another lookup than for narrow nodes
    let wide = depth == 0 && t::chance(1, 8);
    let n_routes = if wide { 14 + t::draw(12) as usize } else if depth == 0 { 1 + t::draw(10) as usize } else if t::chance(1, 6) { 0 } else { 1 + t::draw(4) as usize };
    // a small vocabulary per application makes siblings and shared prefixes likely
    let vocab: Vec<&str> = if wide { let mut v: Vec<&str> = STATICS.to_vec(); t::shuffle(&mut v); v.truncate(12 + t::draw(10) as usize); v } else { (0..2 + t::draw(4)).map(|_| t::pick(&STATICS)).collect() };
    // mounts first decide which first segments are reserved
    let mut reserved_first: Vec<String> = Vec::new();
    let mut param_mount = false;
    let mut mounts: Vec<Item> = Vec::new();
    let relax = !fangs_ok && depth == 0 && t::chance(1, 3);
    // (wave 15) with fangs: the enclosing application registers a route at or below the mount point of an application that is
    // itself mounted inside a mounted one, all prefixes static (with a param among them “under the prefix” would be ambiguous,
    // C04's side condition): its fangs and those of every application on the way govern that route too
    let deep = fangs_ok && depth == 0 && t::chance(1, 4);
    if depth < 2 {
        let n_mounts = t::weighted(&[5, 3, 1]);
        for _ in 0..n_mounts {
            let plen = 1 + t::weighted(&[4, 2]);
            let mut segs: Vec<String> = Vec::new();
            let mut used = params_used;
            for i in 0..plen {
                if i == 0 && t::chance(1, 6) && used < 1 && !param_mount && mounts.is_empty() {
                    segs.push(":m".to_string());
                    used += 1;
                } else {
                    segs.push(t::pick(&STATICS).to_string());
                }
            }
            let first = segs[0].clone();
            if reserved_first.contains(&first) || (first.starts_with(':') && !reserved_first.is_empty()) || param_mount {
                continue;
            }
            if first.starts_with(':') {
                param_mount = true;
            }
            reserved_first.push(first);
            let prefix = format!("/{}", segs.join("/"));
            let child = gen_app(g, depth + 1, used, fangs_ok);
            mounts.push(Item::Mount { prefix, app: child });
        }
    }
    for _ in 0..n_routes {
        let d = t::weighted(&[1, 4, 4, 2, 1]);
        let mut lit = String::new();
        let mut params = params_used;
        for i in 0..d {
            let seg = if params < 2 && t::chance(3, 10) {
                params += 1;
                format!(":{}", t::pick(&["id", "name", "p"]))
            } else {
                t::pick(&vocab).to_string()
            };
            // (without fangs there is no scope to keep apart: the enclosing application may register routes at and below a
            // static mount prefix too — C04's side condition is C04's)
            if i == 0 && (param_mount || (reserved_first.contains(&seg) && !relax) || (seg.starts_with(':') && reserved_first.iter().any(|r| r.starts_with(':')))) {
                // this first segment belongs to a mounted application
                lit.clear();
                break;
            }
            lit.push('/');
            lit.push_str(&seg);
        }
        if d == 0 {
            lit = "/".to_string();
        }
        if lit.is_empty() {
            continue;
        }
        let u = unify(&lit);
        if patterns.contains(&u) {
            continue;
        }
        patterns.push(u);
        let route_params = params;
        items.push(Item::Routes { path: lit, methods: gen_methods(g, route_params, fangs_ok) });
    }
    items.extend(mounts);
    if items.is_empty() && (depth == 0 || n_routes > 0) {
        items.push(Item::Routes { path: "/".into(), methods: gen_methods(g, params_used, fangs_ok) });
    }
    if relax && t::chance(2, 3) {
        // a route of the enclosing application that runs *through* a route of a mounted one and goes on below it, the
        // mounted route having routes of its own below it as well: when the two trees are united, a node that carries a
        // handler and a subtree meets a node that is already there
        let pick: Option<(usize, String)> = items.iter().enumerate().find_map(|(i, it)| match it {
            Item::Mount { prefix, app } if !prefix.contains(':') => app.items.iter().find_map(|ci| match ci {
                Item::Routes { path, .. } if path != "/" && !path.contains(':') => Some((i, path.clone())),
                _ => None,
            }),
            _ => None,
        });
        if let Some((mi, inner)) = pick {
            let with_param = params_used == 0 && t::chance(2, 3);
            let below = if with_param { format!(":{}", t::pick(&["id", "name", "p"])) } else { t::pick(&STATICS).to_string() };
            let deeper = if with_param && t::chance(1, 2) { format!(":{}", t::pick(&["id", "name", "p"])) } else { below.clone() };
            let tail = t::pick(&STATICS).to_string();
            let mut add_parent: Option<String> = None;
            if let Item::Mount { prefix, app } = &mut items[mi] {
                let child_route = format!("{inner}/{below}");
                let have: Vec<String> = app.items.iter().filter_map(|ci| if let Item::Routes { path, .. } = ci { Some(unify(path)) } else { None }).collect();
                let child_mounts_there = app.items.iter().any(|ci| matches!(ci, Item::Mount { .. }));
                if !child_mounts_there {
                    if !have.contains(&unify(&child_route)) {
                        let m = gen_methods(g, if with_param { 1 } else { 0 }, fangs_ok);
                        app.items.push(Item::Routes { path: child_route, methods: m });
                    }
                    add_parent = Some(format!("{prefix}{inner}/{deeper}/{tail}"));
                }
            }
            if let Some(pr) = add_parent {
                if !patterns.contains(&unify(&pr)) {
                    patterns.push(unify(&pr));
                    let m = gen_methods(g, if with_param { 1 } else { 0 }, fangs_ok);
                    items.push(Item::Routes { path: pr, methods: m });
                }
            }
        }
    }
    if deep && !param_mount {
        let pick: Option<String> = items.iter().find_map(|it| match it {
            Item::Mount { prefix, app } if !prefix.contains(':') => app.items.iter().find_map(|ci| match ci {
                Item::Mount { prefix: p2, .. } if !p2.contains(':') => Some(format!("{prefix}{p2}")),
                _ => None,
            }),
            _ => None,
        });
        if let Some(at) = pick {
            let pr = match t::draw(3) {
                0 => at,
                1 => format!("{at}/{}", t::pick(&STATICS)),
                _ => format!("{at}/{}/{}", t::pick(&STATICS), t::pick(&STATICS)),
            };
            if !patterns.contains(&unify(&pr)) {
                patterns.push(unify(&pr));
                let m = gen_methods(g, 0, fangs_ok);
                items.push(Item::Routes { path: pr, methods: m });
            }
        }
    }
    if relax || (deep && !param_mount) {
        // one handler per (route, method): where the enclosing application collides with a mounted one, it gives way
        let mut taken: Vec<(Vec<Seg>, String)> = Vec::new();
        fn collect(app_items: &[Item], prefix: &[Seg], taken: &mut Vec<(Vec<Seg>, String)>) {
            for it in app_items {
                match it {
                    Item::Routes { path, methods } => {
                        let mut segs = prefix.to_vec();
                        segs.extend(appgen::parse_route(path));
                        for m in methods.keys() {
                            taken.push((segs.clone(), m.clone()));
                        }
                    }
                    Item::Mount { prefix: p, app } => {
                        let mut pre = prefix.to_vec();
                        pre.extend(appgen::parse_route(p));
                        collect(&app.items, &pre, taken);
                    }
                }
            }
        }
        for it in &items {
            if let Item::Mount { prefix, app } = it {
                collect(&app.items, &appgen::parse_route(prefix), &mut taken);
            }
        }
        for it in items.iter_mut() {
            if let Item::Routes { path, methods } = it {
                let segs = appgen::parse_route(path);
                methods.retain(|m, _| !taken.iter().any(|(s2, m2)| *s2 == segs && m2 == m));
            }
        }
        items.retain(|it| !matches!(it, Item::Routes { methods, .. } if methods.is_empty()));
        if !items.iter().any(|it| matches!(it, Item::Routes { .. })) {
            g.next_handler += 1;
            items.push(Item::Routes { path: "/zz-root-only".into(), methods: [("GET".to_string(), HandlerSpec { id: g.next_handler, n_params: 0, local_fangs: vec![] })].into_iter().collect() });
        }
    }
    t::shuffle(&mut items);
    let fangs: Vec<FangSpec> = if fangs_ok {
        (0..t::weighted(&[3, 3, 2, 1, 1, 1, 1, 1, 1])).map(|_| {
            g.next_fang += 1;
            FangSpec { id: g.next_fang, kind: if t::chance(1, 3) { appgen::FangKind::Action } else { appgen::FangKind::Trace }, yields: t::chance(1, 4) }
        }).collect()
    } else {
        vec![]
    };
    AppSpec { id, fangs, items }
}

pub fn permute(app: &AppSpec) -> AppSpec {
    let mut items: Vec<Item> = app
        .items
        .iter()
        .map(|it| match it {
            Item::Mount { prefix, app } => Item::Mount { prefix: prefix.clone(), app: permute(app) },
            other => other.clone(),
        })
        .collect();
    t::shuffle(&mut items);
    if items == app.items && items.len() > 1 {
        items.reverse();
    }
    AppSpec { id: app.id, fangs: app.fangs.clone(), items }
}

// param values: anything but '/' and the empty string; values that look like statics, end in '.', are longer than a
// machine word, carry bytes that are special somewhere else ('.', ':', '?' excluded: it ends the path)
// (wave 14) and values whose first or later characters are not ASCII, sent raw — a path is UTF-8, not ASCII
const PARAM_VALUES: [&str; 30] = ["太郎", "émile", "日本語", "ñ", "a太", "x\u{7f}é", "42", "abc", "users", "users2", "a.b", "x-y_z", "%41b", "caf%C3%A9", "0", "u", "%2Fx", "~t", "St.", "Acme-Inc.", "wait..", ".hidden", "v1.2.3", "a.", "12345678", "abcdefghi.", ":id", "a:b", "x.y.z-0123456789abcdef", "."];

pub fn gen_requests(table: &appgen::Table, n: usize) -> Vec<Req> {
    let mut out = Vec::new();
    for _ in 0..n {
        // somewhere under the prefix of a mounted application, whether or not it has a route there
        let mounted: Vec<&appgen::MountEntry> = table.apps.iter().filter(|a| !a.prefix.is_empty()).collect();
        if !mounted.is_empty() && t::chance(1, 6) {
            let m = t::pick(&mounted);
            let mut segs: Vec<String> = m.prefix.iter().map(|s| match s { Seg::Static(x) => x.clone(), Seg::Param => t::pick(&PARAM_VALUES).to_string() }).collect();
            for _ in 0..t::weighted(&[2, 3, 1]) {
                segs.push(t::pick(&["x", "users", "42", "a"]).to_string());
            }
            let method = t::pick(&["GET", "PUT", "POST", "PATCH", "DELETE", "HEAD", "OPTIONS"]).to_string();
            let mut path = format!("/{}", segs.join("/"));
            if t::chance(1, 6) {
                path.push('/');
            }
            out.push(Req { method, path, kind: "under-mount-prefix".to_string() });
            continue;
        }
        if table.routes.is_empty() {
            // an application made of fang-only mounts: nothing is registered, everything is a miss
            let segs: Vec<String> = (0..1 + t::draw(3)).map(|_| t::pick(&STATICS).to_string()).collect();
            out.push(Req { method: t::pick(&["GET", "PUT", "POST", "PATCH", "DELETE", "HEAD", "OPTIONS"]).to_string(), path: format!("/{}", segs.join("/")), kind: "random-path".to_string() });
            continue;
        }
        let r = t::pick(&table.routes);
        let mut segs: Vec<String> = r.segs.iter().map(|s| match s { Seg::Static(x) => x.clone(), Seg::Param => t::pick(&PARAM_VALUES).to_string() }).collect();
        let registered: Vec<&String> = r.methods.keys().collect();
        let mut method = if t::chance(3, 4) { t::pick(&registered).to_string() } else { t::pick(&["GET", "PUT", "POST", "PATCH", "DELETE", "HEAD", "OPTIONS"]).to_string() };
        if method == "GET" && t::chance(1, 5) {
            method = "HEAD".into();
        }
        let mut kind = "hit";
        match t::weighted(&[8, 2, 2, 2, 1, 2, 1, 1, 1, 1]) {
            0 => {}
            1 => {
                // a static segment plus a suffix byte / a prefix of it
                if let Some(i) = (0..segs.len()).rev().find(|i| matches!(r.segs[*i], Seg::Static(_))) {
                    if t::chance(1, 2) || segs[i].len() < 2 {
                        segs[i].push(t::pick(&['2', 's', 'x', '.']));
                    } else {
                        segs[i].pop();
                    }
                    kind = "static-near-miss";
                }
            }
            2 => {
                segs.push(t::pick(&["x", "users", "", "42"]).to_string());
                kind = "extra-segment";
            }
            3 => {
                if !segs.is_empty() {
                    segs.pop();
                    kind = "missing-segment";
                }
            }
            4 => {
                if !segs.is_empty() {
                    let i = t::draw(segs.len() as u32) as usize;
                    segs.insert(i, String::new());
                    kind = "doubled-slash";
                }
            }
            5 => kind = "trailing-slash",
            6 => kind = "two-trailing-slashes",
            7 => {
                if let Some(i) = (0..segs.len()).find(|i| matches!(r.segs[*i], Seg::Static(_))) {
                    let s = &segs[i];
                    let first = s.as_bytes()[0];
                    segs[i] = format!("%{:02X}{}", first, &s[1..]);
                    kind = "pct-encoded-static";
                }
            }
            8 => {
                if let Some(i) = (0..segs.len()).find(|i| matches!(r.segs[*i], Seg::Param)) {
                    segs[i] = String::new();
                    kind = "empty-param";
                }
            }
            _ => {
                segs = (0..1 + t::draw(3)).map(|_| t::pick(&STATICS).to_string()).collect();
                kind = "random-path";
            }
        }
        let mut path = format!("/{}", segs.join("/"));
        if kind == "trailing-slash" && path != "/" {
            path.push('/');
        }
        if kind == "two-trailing-slashes" {
            path.push_str("//");
        }
        out.push(Req { method, path, kind: kind.to_string() });
    }
    out
}

pub fn generate(_cfg: &RunCfg, _out: &mut Outcome) -> Scenario {
    let mut g = Gen { next_handler: 0, next_app: 0, next_fang: 0 };
    let app = gen_app(&mut g, 0, 0, false);
    let app2 = permute(&app);
    let table = appgen::table(&app);
    let n_conns = 1 + t::weighted(&[5, 3, 2]);
    let conns = (0..n_conns).map(|_| gen_requests(&table, 2 + t::draw(8) as usize)).collect();
    Scenario { app, app2, conns }
}

pub fn run(cfg: &RunCfg, direct: Option<&serde_json::Value>) -> Outcome {
    let mut out = Outcome::new();
    let sc: Scenario = match direct {
        Some(v) => match serde_json::from_value(v.clone()) {
            Ok(s) => s,
            Err(e) => {
                out.verdict = Verdict::Inconclusive(format!("cannot decode scenario: {e}"));
                return out;
            }
        },
        None => generate(cfg, &mut out),
    };
    rt::mark_generated();
    execute(&sc, &mut out);
    out
}

/// what the model allows for one request: (handler id, params) alternatives; None = 404 without handler
pub fn expectations(table: &appgen::Table, method: &str, raw_path: &str) -> (Vec<Option<(u32, Vec<Vec<u8>>)>>, bool) {
    let segs = appgen::path_segments(raw_path);
    let m = if method == "HEAD" { "GET" } else { method };
    let outcome_for = |r: Option<&appgen::RouteEntry>| -> Option<(u32, Vec<Vec<u8>>)> {
        let r = r?;
        let h = r.methods.get(m)?;
        let caps = appgen::captured(r, &segs);
        Some((h.id, caps.iter().take(h.n_params as usize).map(|c| percent_decode(c.as_bytes())).collect()))
    };
    let mut alts: Vec<Option<(u32, Vec<Vec<u8>>)>> = Vec::new();
    let primary = outcome_for(appgen::greedy(&table.routes, &segs));
    alts.push(primary.clone());
    // other readings of the statement
    let with_method: Vec<appgen::RouteEntry> = table.routes.iter().filter(|r| r.methods.contains_key(m)).cloned().collect();
    for alt in [outcome_for(appgen::backtrack(&table.routes, &segs)), outcome_for(appgen::greedy(&with_method, &segs)), outcome_for(appgen::backtrack(&with_method, &segs))] {
        if !alts.contains(&alt) {
            alts.push(alt);
        }
    }
    // a mounted application claims its prefix even where it registers nothing: the mount point may count as a static
    // alternative (greedy descent enters it and finds no handler) or not (only registered routes are alternatives)
    if table.apps.iter().any(|a| !a.prefix.is_empty()) {
        let mut with_mounts: Vec<appgen::RouteEntry> = table.routes.clone();
        for a in table.apps.iter().filter(|a| !a.prefix.is_empty()) {
            with_mounts.push(appgen::RouteEntry { segs: a.prefix.clone(), literal: String::new(), methods: Default::default(), apps: vec![] });
        }
        let with_mounts_m: Vec<appgen::RouteEntry> = with_mounts.iter().filter(|r| r.methods.contains_key(m) || r.methods.is_empty()).cloned().collect();
        for alt in [outcome_for(appgen::greedy(&with_mounts, &segs)), outcome_for(appgen::greedy(&with_mounts_m, &segs))] {
            if !alts.contains(&alt) {
                alts.push(alt);
            }
        }
    }
    let ambiguous = alts.len() > 1;
    (alts, ambiguous)
}

/// does counting mount points as static alternatives (see `expectations`) change which route greedy descent reaches?
pub fn mount_points_change_routing(table: &appgen::Table, segs: &[String]) -> bool {
    if !table.apps.iter().any(|a| !a.prefix.is_empty()) {
        return false;
    }
    let mut with_mounts: Vec<appgen::RouteEntry> = table.routes.clone();
    for a in table.apps.iter().filter(|a| !a.prefix.is_empty()) {
        with_mounts.push(appgen::RouteEntry { segs: a.prefix.clone(), literal: String::new(), methods: Default::default(), apps: vec![] });
    }
    let plain = appgen::greedy(&table.routes, segs).map(|r| (r.segs.clone(), r.methods.is_empty()));
    let mounted = appgen::greedy(&with_mounts, segs).map(|r| (r.segs.clone(), r.methods.is_empty()));
    let mounted = match mounted {
        Some((_, true)) => None, // ended on a bare mount point
        other => other,
    };
    plain != mounted
}

fn shape_hazards(table: &appgen::Table, out: &mut Outcome) {
    // a static segment with a param sibling at the same position under the same parent prefix
    for a in &table.routes {
        for b in &table.routes {
            for i in 0..a.segs.len().min(b.segs.len()) {
                if a.segs[..i] == b.segs[..i] {
                    if let (Seg::Static(_), Seg::Param) = (&a.segs[i], &b.segs[i]) {
                        out.probe("c01.static_next_to_param");
                        return;
                    }
                }
            }
        }
    }
}

fn execute(sc: &Scenario, out: &mut Outcome) {
    out.scenario = serde_json::to_value(sc).unwrap_or(serde_json::Value::Null);
    out.scenario_hash = rt::fnv64(serde_json::to_string(sc).unwrap_or_default().as_bytes());
    let table = appgen::table(&sc.app);
    shape_hazards(&table, out);
    let depth = table.routes.iter().map(|r| r.segs.len()).max().unwrap_or(0);
    out.states.push(format!("depth{}|mounts{}|routes{}", depth, (table.apps.len() - 1).min(3), table.routes.len().min(8)));

    // registration must not panic for configurations the generator considers legal
    let built = std::panic::catch_unwind(std::panic::AssertUnwindSafe(|| (appgen::build(&sc.app), appgen::build(&sc.app2))));
    let (o1, o2) = match built {
        Ok(x) => x,
        Err(_) => {
            let info = simcore::LAST_PANIC.with(|p| p.borrow_mut().take());
            let msg = info.map(|i| format!("{}: {}", i.file, i.message)).unwrap_or_default();
            out.violate("registration", "panic", format!("building the application panicked: {msg}"));
            return;
        }
    };
    rt::serve_at(o1, "sim:80");
    rt::serve_at(o2, "sim:81");
    if !simcore::with(|w| w.listener_open("sim:80") && w.listener_open("sim:81")) {
        let p = rt::all_panicked_tasks();
        out.violate("registration", "panic-at-finalize", format!("server did not start: {:?}", p.first().map(|x| x.4.clone())));
        return;
    }

    type Obs = Rc<RefCell<Vec<Vec<Result<Resp, RecvErr>>>>>;
    let mk_obs = || -> Obs { Rc::new(RefCell::new(sc.conns.iter().map(|_| Vec::new()).collect())) };
    let (obs1, obs2) = (mk_obs(), mk_obs());
    for (addr, obs) in [("sim:80", obs1.clone()), ("sim:81", obs2.clone())] {
        for (ci, reqs) in sc.conns.iter().enumerate() {
            let o = obs.clone();
            let reqs = reqs.clone();
            simcore::spawn_task(format!("client-{addr}-{ci}"), "client", async move {
                let Ok(mut c) = Client::connect(addr, ConnCfg::default()).await else { return };
                for r in &reqs {
                    let bytes = format!("{} {} HTTP/1.1\r\nHost: sim\r\n\r\n", r.method, r.path);
                    c.send(bytes.as_bytes(), 0);
                    let resp = c.recv(r.method == "HEAD", DEFAULT_TIMEOUT).await;
                    let ok = resp.is_ok();
                    o.borrow_mut()[ci].push(resp);
                    if !ok {
                        return;
                    }
                }
                c.send_fin(0);
                let _ = c.drain_until_close(DEFAULT_TIMEOUT).await;
            });
        }
    }
    let end = simcore::run();

    // ---- oracle
    let panics = rt::panicked_tasks();
    if let Some((_, _, file, _, msg)) = panics.first() {
        out.violate("no-panic", rt::panic_site(file, msg), format!("a server task panicked at {file}: {msg}"));
        return;
    }
    if matches!(end, simcore::EndReason::StepCap | simcore::EndReason::TimeCap) {
        out.verdict = Verdict::Inconclusive(format!("{end:?}"));
        return;
    }
    let (mut hits, mut misses) = (0, 0);
    let o1 = obs1.borrow();
    let o2 = obs2.borrow();
    for (ci, reqs) in sc.conns.iter().enumerate() {
        let mut prev_had_params = false;
        for (k, rq) in reqs.iter().enumerate() {
            let (alts, ambiguous) = expectations(&table, &rq.method, &rq.path);
            if ambiguous {
                out.probe("c01.ambiguous_zone");
            }
            let observe = |r: Option<&Result<Resp, RecvErr>>| -> Result<Option<(u32, Vec<Vec<u8>>)>, String> {
                match r {
                    Some(Ok(resp)) => match resp.header("X-Handler") {
                        Some(h) => {
                            let id: u32 = h.parse().unwrap_or(0);
                            let params: Vec<Vec<u8>> = if rq.method == "HEAD" {
                                vec![]
                            } else {
                                let b = resp.body_text();
                                let rest = b.splitn(2, '|').nth(1).unwrap_or("").to_string();
                                if rest.is_empty() { vec![] } else { rest.split('|').map(|s| s.as_bytes().to_vec()).collect() }
                            };
                            if resp.status != 200 {
                                return Err(format!("handler {id} ran but status is {}", resp.status));
                            }
                            if rq.method == "HEAD" && !resp.body.is_empty() {
                                return Err("HEAD response carries a body".into());
                            }
                            Ok(Some((id, params)))
                        }
                        None => {
                            if rq.method != "OPTIONS" && resp.status != 404 {
                                return Err(format!("no user handler ran but the status is {} instead of 404", resp.status));
                            }
                            Ok(None)
                        }
                    },
                    Some(Err(e)) => Err(format!("no response: {e:?}").chars().take(120).collect()),
                    None => Err("request never sent (connection failed earlier)".into()),
                }
            };
            let got1 = observe(o1[ci].get(k));
            let got2 = observe(o2[ci].get(k));
            let desc = format!("{} {} ({})", rq.method, rq.path, rq.kind);
            let got1 = match got1 {
                Ok(g) => g,
                Err(e) => {
                    out.violate("dispatch", format!("{}/malformed-outcome", rq.kind), format!("{desc}: {e}"));
                    return;
                }
            };
            // HEAD: params are not observable; compare ids only
            let matches_alt = |g: &Option<(u32, Vec<Vec<u8>>)>| alts.iter().any(|a| match (a, g) {
                (None, None) => true,
                (Some((ia, pa)), Some((ig, pg))) => ia == ig && (rq.method == "HEAD" || pa == pg),
                _ => false,
            });
            if !matches_alt(&got1) {
                let routes: Vec<String> = table.routes.iter().map(|r| format!("{} {:?}", r.literal, r.methods.iter().map(|(m, h)| format!("{m}:h{}", h.id)).collect::<Vec<_>>())).collect();
                let what = match (&alts[0], &got1) {
                    (Some(_), None) => "registered-route-not-found",
                    (None, Some(_)) => "handler-ran-for-unregistered",
                    (Some((a, _)), Some((b, _))) if a != b => "wrong-handler",
                    _ => "wrong-params",
                };
                out.violate("dispatch", format!("{}/{what}", rq.kind), format!("{desc}: expected {:?}, observed {:?}; routes: {routes:?}", alts[0], got1));
                return;
            }
            match got2 {
                Ok(g2) => {
                    if g2 != got1 {
                        out.violate("registration-order", format!("{}/differs", rq.kind), format!("{desc}: {got1:?} with one registration order, {g2:?} with another"));
                        return;
                    }
                }
                Err(e) => {
                    out.violate("registration-order", format!("{}/malformed-outcome", rq.kind), format!("{desc} on the second server: {e}"));
                    return;
                }
            }
            match &got1 {
                Some((_, p)) => {
                    hits += 1;
                    out.probe("c01.hit");
                    if rq.method == "HEAD" {
                        out.probe("c01.head_on_get");
                    }
                    if rq.kind == "trailing-slash" {
                        out.probe("c01.trailing_slash");
                    }
                    if table.routes.iter().any(|r| r.apps.len() > 1 && r.methods.values().any(|h| Some(h.id) == got1.as_ref().map(|g| g.0))) {
                        out.probe("c01.mounted_route_hit");
                    }
                    if !p.is_empty() && k > 0 && !prev_had_params {
                        out.probe("c01.param_after_other_shape");
                    }
                    prev_had_params = !p.is_empty();
                }
                None => {
                    misses += 1;
                    out.probe("c01.miss_404");
                    if rq.kind == "static-near-miss" {
                        out.probe("c01.static_prefix_near_miss");
                    }
                    prev_had_params = false;
                }
            }
        }
    }
    out.nontrivial = hits > 0 && misses > 0;
}
