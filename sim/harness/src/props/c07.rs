//! C07 — typed path, query and body extraction delivers exact values or stops the handler.

use super::PropInfo;
use crate::client::{Client, RecvErr, Resp, DEFAULT_TIMEOUT};
use crate::reqmodel::percent_decode;
use crate::rt::{self, t, Outcome, RunCfg, Verdict};
use ohkami::format::{Multipart, Query, Text, URLEncoded, JSON};
use ohkami::{Ohkami, Response, Route};
use serde::{Deserialize, Serialize};
use serde_json::{json, Value};
use simcore::ConnCfg;
use std::cell::RefCell;
use std::future::Future;
use std::rc::Rc;

pub const INFO: PropInfo = PropInfo {
    quick_runs: 40_000,
    thorough_runs: 1_500_000,
    rule: "each run = 2..10 requests on 1..2 keep-alive connections against a fixed catalogue of typed handlers (one or two path params of String / &str / every built-in integer width; Query, JSON, URLEncoded, Multipart, Text and Option<_> of them; up to 1 param + 3 extractors) \
           with generated inputs tagged valid / invalid / grey by the generator (digit strings with garbage, signs, leading zeros, values at +-1 of every bound and far beyond, percent-encoded and non-UTF-8 segments, valid and invalid bodies, matching / mismatching / parameterised / missing Content-Type, missing payload); \
           non-trivial = at least one handler ran and one request was stopped; distinct = distinct hash of the request sequence",
    state_measure: "(route, input tag, outcome: ran / stopped) combinations",
    assumptions: &[
        "the reference for integers is Rust's FromStr on the percent-decoded segment; only the canonical decimal spelling MUST be accepted, other spellings FromStr accepts (`+5`, `007`) are grey",
        "serde_json is the reference for JSON bodies; the reference for query strings and forms is an independent split/percent-decode (no `+`, no repeated keys, no empty values for numeric fields)",
        "multipart bodies come from the harness' own RFC 7578 encoder (text fields only); the expected values are the encoder's inputs",
        "a media type in another letter case or with a suffix that merely starts with the extractor's type is grey",
    ],
    expected_probes: &["c07.int_at_bound_accepted", "c07.int_beyond_bound_stopped", "c07.digits_plus_garbage_stopped", "c07.two_params", "c07.json_valid", "c07.json_invalid_stopped", "c07.content_type_mismatch_stopped", "c07.option_none_when_absent", "c07.param_after_param_on_same_connection", "c07.multipart_valid", "c07.query_valid", "c07.form_valid", "c07.text_non_utf8_stopped", "c07.body_cut_short_not_delivered"],
};

#[derive(Clone, Debug, Serialize, Deserialize)]
pub struct Req {
    pub method: String,
    pub target: String,
    pub content_type: Option<String>,
    #[serde(with = "crate::rt::hexser")]
    pub body: Vec<u8>,
    pub has_body: bool,
    /// "valid" | "invalid" | "grey"
    pub tag: String,
    pub route: String,
    pub what: String,
    /// what the handler must echo when it runs (None for grey inputs without a reference value)
    pub expect: Option<Value>,
    /// fault: only this many bytes of the announced body are sent, then the client closes its sending side
    /// (last request of its connection). The body the request announces never arrives: the handler must not run.
    #[serde(default)]
    pub cut_body_fin: Option<usize>,
}
#[derive(Clone, Debug, Serialize, Deserialize)]
pub struct Scenario {
    pub conns: Vec<Vec<Req>>,
}

// ---- data types the handlers extract --------------------------------------------------------------

#[derive(Debug, Clone, Serialize, Deserialize, PartialEq)]
pub struct QS {
    pub a: String,
    pub n: Option<i32>,
}
#[derive(Debug, Clone, Serialize, Deserialize, PartialEq)]
pub struct J {
    pub id: u32,
    pub name: String,
    pub tags: Vec<String>,
    pub opt: Option<bool>,
}
#[derive(Debug, Clone, Serialize, Deserialize, PartialEq)]
pub struct F {
    pub a: String,
    pub n: i32,
}
#[derive(Debug, Clone, Serialize, Deserialize, PartialEq)]
pub struct MP {
    pub a: String,
    pub b: String,
}

/// a form with files: one text field, one optional file, any number of files under one name
#[derive(Debug, Deserialize)]
pub struct UP<'req> {
    pub note: &'req str,
    #[serde(borrow)]
    pub attachment: Option<ohkami::format::File<'req>>,
    #[serde(borrow)]
    pub files: Vec<ohkami::format::File<'req>>,
}
fn file_json(f: &ohkami::format::File<'_>) -> Value {
    json!({"filename": f.filename, "mimetype": f.mimetype, "content": crate::client::hex(f.content)})
}
async fn h_upload(Multipart(u): Multipart<UP<'_>>) -> Response {
    ran(json!({"up": {"note": u.note, "attachment": u.attachment.as_ref().map(file_json), "files": u.files.iter().map(file_json).collect::<Vec<_>>()}}))
}

fn ran(v: Value) -> Response {
    Response::OK().with_text(v.to_string()).with_headers(|h| h.x("X-Ran", "1"))
}

macro_rules! int_route {
    ($ty:ty) => {
        |p: $ty| {
            let r = ran(json!({"p": [p.to_string()]}));
            async move { r }
        }
    };
}

fn h_str_ref(p: &str) -> impl Future<Output = Response> + Send + 'static {
    let r = ran(json!({"p": [p]}));
    async move { r }
}
fn h_cow(p: std::borrow::Cow<'_, str>) -> impl Future<Output = Response> + Send + 'static {
    let r = ran(json!({"p": [p.as_ref()]}));
    async move { r }
}

fn build_app() -> Ohkami {
    Ohkami::new(crate::appgen::Items::from_sets(vec![
        "/s/:p".GET(|p: String| {
            let r = ran(json!({"p": [p]}));
            async move { r }
        }),
        // (wave 14) a static segment and a param as siblings, a param below the static one as well: a router that gives up the
        // static branch half-way and takes the param sibling must not keep what it captured on the way
        "/sib/me/:tab/edit".GET(|tab: String| {
            let r = ran(json!({"p": [tab]}));
            async move { r }
        }),
        "/sib/:id/settings/view".GET(|id: String| {
            let r = ran(json!({"p": [id]}));
            async move { r }
        }),
        "/r/:p".GET(h_str_ref),
        "/cow/:p".GET(h_cow),
        "/u8/:p".GET(int_route!(u8)),
        "/u16/:p".GET(int_route!(u16)),
        "/u32/:p".GET(int_route!(u32)),
        "/u64/:p".GET(int_route!(u64)),
        "/usize/:p".GET(int_route!(usize)),
        "/i8/:p".GET(int_route!(i8)),
        "/i16/:p".GET(int_route!(i16)),
        "/i32/:p".GET(int_route!(i32)),
        "/i64/:p".GET(int_route!(i64)),
        "/isize/:p".GET(int_route!(isize)),
        "/two/:a/:b".GET(|(a, b): (u8, String)| {
            let r = ran(json!({"p": [a.to_string(), b]}));
            async move { r }
        }),
        "/two2/:a/:b".GET(|(a, b): (i64, u16)| {
            let r = ran(json!({"p": [a.to_string(), b.to_string()]}));
            async move { r }
        }),
        "/q".GET(|Query(q): Query<QS>| {
            let r = ran(json!({"q": q}));
            async move { r }
        }),
        "/json"
            .POST(|JSON(j): JSON<J>| {
                let r = ran(json!({"j": j}));
                async move { r }
            })
            .PUT(|JSON(j): JSON<J>| {
                let r = ran(json!({"j": j}));
                async move { r }
            })
            .PATCH(|JSON(j): JSON<J>| {
                let r = ran(json!({"j": j}));
                async move { r }
            })
            .DELETE(|JSON(j): JSON<J>| {
                let r = ran(json!({"j": j}));
                async move { r }
            })
            .GET(|JSON(j): JSON<J>| {
                let r = ran(json!({"j": j}));
                async move { r }
            }),
        "/form".POST(|URLEncoded(f): URLEncoded<F>| {
            let r = ran(json!({"f": f}));
            async move { r }
        }),
        "/text"
            .POST(|Text(s): Text<String>| {
                let r = ran(json!({"t": s}));
                async move { r }
            })
            .DELETE(|Text(s): Text<String>| {
                let r = ran(json!({"t": s}));
                async move { r }
            })
            .GET(|Text(s): Text<String>| {
                let r = ran(json!({"t": s}));
                async move { r }
            }),
        "/upload".POST(h_upload),
        "/multi".POST(|Multipart(m): Multipart<MP>| {
            let r = ran(json!({"m": m}));
            async move { r }
        }),
        "/optjson".POST(|j: Option<JSON<J>>| {
            let r = ran(json!({"j": j.map(|x| x.0)}));
            async move { r }
        }),
        "/opttext".POST(|s: Option<Text<String>>| {
            let r = ran(json!({"t": s.map(|x| x.0)}));
            async move { r }
        }),
        "/combo/:id".POST(|id: u32, Query(q): Query<QS>, JSON(j): JSON<J>| {
            let r = ran(json!({"p": [id.to_string()], "q": q, "j": j}));
            async move { r }
        }),
        // the signature matrix: 1 and 2 path params x 1..4 extractors (Query, Option<JSON>, Option<Text>, Option<URLEncoded>)
        "/sh11/:a".POST(|a: u32, Query(q): Query<QS>| {
            let r = ran(json!({"p": [a.to_string()], "q": q}));
            async move { r }
        }),
        "/sh12/:a".POST(|a: u32, Query(q): Query<QS>, j: Option<JSON<J>>| {
            let r = ran(json!({"p": [a.to_string()], "q": q, "j": j.map(|x| x.0)}));
            async move { r }
        }),
        "/sh13/:a".POST(|a: u32, Query(q): Query<QS>, j: Option<JSON<J>>, s: Option<Text<String>>| {
            let r = ran(json!({"p": [a.to_string()], "q": q, "j": j.map(|x| x.0), "t": s.map(|x| x.0)}));
            async move { r }
        }),
        "/sh14/:a".POST(|a: u32, Query(q): Query<QS>, j: Option<JSON<J>>, s: Option<Text<String>>, f: Option<URLEncoded<F>>| {
            let r = ran(json!({"p": [a.to_string()], "q": q, "j": j.map(|x| x.0), "t": s.map(|x| x.0), "f": f.map(|x| x.0)}));
            async move { r }
        }),
        "/sh21/:a/:b".POST(|(a, b): (u32, String), Query(q): Query<QS>| {
            let r = ran(json!({"p": [a.to_string(), b], "q": q}));
            async move { r }
        }),
        "/sh22/:a/:b".POST(|(a, b): (u32, String), Query(q): Query<QS>, j: Option<JSON<J>>| {
            let r = ran(json!({"p": [a.to_string(), b], "q": q, "j": j.map(|x| x.0)}));
            async move { r }
        }),
        "/sh23/:a/:b".POST(|(a, b): (u32, String), Query(q): Query<QS>, j: Option<JSON<J>>, s: Option<Text<String>>| {
            let r = ran(json!({"p": [a.to_string(), b], "q": q, "j": j.map(|x| x.0), "t": s.map(|x| x.0)}));
            async move { r }
        }),
        "/sh24/:a/:b".POST(|(a, b): (u32, String), Query(q): Query<QS>, j: Option<JSON<J>>, s: Option<Text<String>>, f: Option<URLEncoded<F>>| {
            let r = ran(json!({"p": [a.to_string(), b], "q": q, "j": j.map(|x| x.0), "t": s.map(|x| x.0), "f": f.map(|x| x.0)}));
            async move { r }
        }),
        "/combo3/:id".POST(|id: i16, Query(q): Query<QS>, j: Option<JSON<J>>, s: Option<Text<String>>| {
            let r = ran(json!({"p": [id.to_string()], "q": q, "j": j.map(|x| x.0), "t": s.map(|x| x.0)}));
            async move { r }
        }),
    ]))
}

// ---- generation ----------------------------------------------------------------------------------

const INTS: [(&str, i128, i128); 10] = [
    ("u8", 0, u8::MAX as i128),
    ("u16", 0, u16::MAX as i128),
    ("u32", 0, u32::MAX as i128),
    ("u64", 0, u64::MAX as i128),
    ("usize", 0, usize::MAX as i128),
    ("i8", i8::MIN as i128, i8::MAX as i128),
    ("i16", i16::MIN as i128, i16::MAX as i128),
    ("i32", i32::MIN as i128, i32::MAX as i128),
    ("i64", i64::MIN as i128, i64::MAX as i128),
    ("isize", isize::MIN as i128, isize::MAX as i128),
];

/// (segment, tag, what, expected value as the handler prints it)
fn gen_int_segment(lo: i128, hi: i128) -> (String, &'static str, &'static str, Option<String>) {
    match t::weighted(&[5, 3, 3, 2, 2, 2]) {
        0 => {
            let v = match t::draw(6) {
                0 => lo,
                1 => hi,
                2 => 0,
                3 => hi - 1,
                4 => lo + 1,
                _ => lo + (t::range(0, u32::MAX as u64) as i128 % (hi - lo + 1)),
            };
            (v.to_string(), "valid", "in-range-canonical", Some(v.to_string()))
        }
        1 => {
            let v = match t::draw(4) {
                0 => (hi + 1).to_string(),
                1 => (lo - 1).to_string(),
                2 => format!("{}{}", hi, t::string(b"0123456789", 1, 4)),
                _ => t::string(b"123456789", 25, 40),
            };
            (v, "invalid", "beyond-bounds", None)
        }
        2 => {
            let base = t::range(0, 99).to_string();
            let v = match t::draw(8) {
                0 => format!("{base}abc"),
                1 => format!("x{base}"),
                2 => format!("{base}.0"),
                3 => format!("{base}e3"),
                4 => format!("{base}%20"),
                5 => "-".to_string(),
                6 => format!("--{base}"),
                _ => format!("{base}_0"),
            };
            (v, "invalid", "digits-plus-garbage", None)
        }
        3 => {
            // spellings FromStr accepts but that are not canonical
            let base = t::range(0, 99);
            let v = match t::draw(3) {
                0 => format!("+{base}"),
                1 => format!("00{base}"),
                _ => "-0".to_string(),
            };
            (v, "grey", "non-canonical-spelling", None)
        }
        4 => {
            // percent-encoded digits: the decoded segment is what counts
            let v = t::range(0, 9);
            (format!("%3{v}"), "valid", "pct-encoded-digit", if lo <= v as i128 { Some(v.to_string()) } else { None })
        }
        _ => {
            let v = t::pick(&["%FF", "%C3", "abc", "", "%2D5"]);
            (v.to_string(), if v == "%2D5" { "grey" } else { "invalid" }, "not-a-number", None)
        }
    }
}

fn gen_str_segment() -> (String, Vec<u8>) {
    let raw = match t::weighted(&[4, 3, 1]) {
        0 => t::string(b"abcXYZ019._-~", 1, 10),
        1 => format!("{}{}{}", t::string(b"ab", 0, 3), t::pick(&["%41", "%20", "%C3%A9", "%E4%B8%80", "%25", "%2F", "%3F"]), t::string(b"yz", 0, 3)),
        _ => t::string(b"0123456789", 1, 30),
    };
    let dec = percent_decode(raw.as_bytes());
    (raw, dec)
}

fn gen_qs() -> (String, &'static str, Option<QS>) {
    let a = t::string(b"abcXYZ019-_.~", 0, 8);
    match t::weighted(&[4, 2, 2, 2, 1, 1]) {
        5 => {
            // a value (or key) whose percent-decoded bytes are not UTF-8: no String is denoted, the item cannot be produced
            let bad = t::pick(&["%FF", "x%C3%28y", "%E7%8B", "%80abc", "ok%F0%9F%98"]);
            match t::draw(3) {
                0 => (format!("a={bad}"), "invalid", None),
                1 => (format!("n=1&a={a}{bad}"), "invalid", None),
                _ => (format!("a={bad}&n=7"), "invalid", None),
            }
        }
        0 => {
            let n = if t::chance(1, 2) { Some(t::range(0, 1000) as i32 - 500) } else { None };
            let mut parts = vec![format!("a={a}")];
            if let Some(n) = n {
                parts.push(format!("n={n}"));
            }
            if t::chance(1, 3) {
                parts.reverse();
            }
            if t::chance(1, 4) {
                parts.push("zzz=unknown".into());
            }
            (parts.join("&"), "valid", Some(QS { a, n }))
        }
        1 => {
            let enc = format!("{}%20%26%3D%E4%B8%80", a);
            (format!("a={enc}"), "valid", Some(QS { a: format!("{a} &=一"), n: None }))
        }
        2 => (format!("n=5&b={a}"), "invalid", None), // required field missing
        3 => (format!("a={a}&n={}", t::pick(&["abc", "1.5", "99999999999", "1x"])), "invalid", None),
        _ => (String::new(), "invalid", None),
    }
}

fn gen_j() -> J {
    J {
        id: t::pick(&[0u32, 1, 42, u32::MAX]),
        name: t::pick(&["", "ohkami", "caf\u{e9} \"q\" \\ \n", "日本語"]).to_string(),
        tags: (0..t::draw(3)).map(|_| t::string(b"abc", 0, 4)).collect(),
        opt: t::pick(&[None, Some(true), Some(false)]),
    }
}

fn gen_json_body() -> (Vec<u8>, &'static str, Option<J>) {
    match t::weighted(&[5, 1, 1, 1, 1, 2]) {
        5 => {
            // a complete, schema-valid document followed by something that is not white space: not a JSON document
            let j = gen_j();
            let mut text = serde_json::to_string(&j).unwrap();
            text.push_str(t::pick(&["xyz", "]", ",", "}", "{\"id\":1,\"name\":\"m\",\"tags\":[]}", " null", "\u{0}"]));
            (text.into_bytes(), "invalid", None)
        }
        0 => {
            let j = gen_j();
            let mut v = serde_json::to_value(&j).unwrap();
            if j.opt.is_none() && t::chance(1, 2) {
                v.as_object_mut().unwrap().remove("opt");
            }
            let mut text = if t::chance(1, 3) { serde_json::to_string_pretty(&v).unwrap() } else { v.to_string() };
            if t::chance(1, 4) {
                text.push_str(t::pick(&[" ", "\n", "\r\n\t "])); // trailing white space is still one document
            }
            (text.into_bytes(), "valid", Some(j))
        }
        1 => (b"{\"id\": 1, \"name\": \"x\"".to_vec(), "invalid", None),
        2 => (b"{\"id\": \"1\", \"name\": \"x\", \"tags\": []}".to_vec(), "invalid", None),
        3 => (b"{\"id\": 4294967296, \"name\": \"x\", \"tags\": []}".to_vec(), "invalid", None),
        _ => (b"{\"name\": \"x\", \"tags\": []}".to_vec(), "invalid", None),
    }
}

fn multipart_body(boundary: &str, fields: &[(&str, &str)]) -> Vec<u8> {
    let mut v = Vec::new();
    for (n, val) in fields {
        v.extend_from_slice(format!("--{boundary}\r\nContent-Disposition: form-data; name=\"{n}\"\r\n\r\n{val}\r\n").as_bytes());
    }
    v.extend_from_slice(format!("--{boundary}--\r\n").as_bytes());
    v
}

fn gen_req() -> Req {
    let mk = |method: &str, target: String, ct: Option<&str>, body: Option<Vec<u8>>, tag: &str, route: &str, what: &str, expect: Option<Value>| Req {
        method: method.into(),
        target,
        content_type: ct.map(|s| s.to_string()),
        has_body: body.is_some(),
        body: body.unwrap_or_default(),
        tag: tag.into(),
        route: route.into(),
        what: what.into(),
        expect,
        cut_body_fin: None,
    };
    match t::weighted(&[6, 3, 2, 3, 3, 2, 2, 2, 2, 2, 2, 4, 1]) {
        12 => {
            let v = t::pick(&["x", "42", "settings", "me", "abc"]);
            match t::draw(3) {
                0 => mk("GET", format!("/sib/me/{v}/edit"), None, None, "valid", "sib", "static-branch", Some(json!({"p": [v]}))),
                1 if v != "me" => mk("GET", format!("/sib/{v}/settings/view"), None, None, "valid", "sib", "param-branch", Some(json!({"p": [v]}))),
                // the static branch dead-ends: 404 (the tree), or the param sibling with `me` as its param — never with `settings`
                _ => mk("GET", "/sib/me/settings/view".into(), None, None, "grey", "sib", "static-branch-dead-ends", Some(json!({"p": ["me"]}))),
            }
        }
        11 => {
            // the signature matrix
            let np = 1 + t::draw(2) as usize;
            let ne = 1 + t::draw(4) as usize;
            let (seg, ptag, _w, pexp) = gen_int_segment(0, u32::MAX as i128);
            let ptag = if ptag == "valid" && pexp.is_none() { "invalid" } else { ptag };
            let (raw2, dec2) = gen_str_segment();
            let s2 = String::from_utf8(dec2).ok();
            let (q, qtag, qexp) = gen_qs();
            let a = t::string(b"abcXYZ019", 0, 6);
            let n = t::range(0, 200) as i32 - 100;
            let (ct, body, j, tx, f): (Option<&str>, Option<Vec<u8>>, Value, Value, Value) = match t::draw(4) {
                0 => (None, None, Value::Null, Value::Null, Value::Null),
                1 => {
                    let jj = gen_j();
                    (Some("application/json"), Some(serde_json::to_vec(&jj).unwrap()), serde_json::to_value(&jj).unwrap(), Value::Null, Value::Null)
                }
                2 => (Some("text/plain"), Some(b"plain text".to_vec()), Value::Null, json!("plain text"), Value::Null),
                _ => (Some("application/x-www-form-urlencoded"), Some(format!("a={a}&n={n}").into_bytes()), Value::Null, Value::Null, json!(F { a: a.clone(), n })),
            };
            let tags = [ptag, qtag];
            let tag = if tags.contains(&"invalid") { "invalid" } else if tags.contains(&"grey") { "grey" } else { "valid" };
            let expect = match (pexp, qexp, &s2) {
                (Some(p), Some(q), s2) if tag == "valid" && (np == 1 || s2.is_some()) => {
                    let mut o = serde_json::Map::new();
                    o.insert("p".into(), if np == 1 { json!([p]) } else { json!([p, s2.clone().unwrap()]) });
                    o.insert("q".into(), json!(q));
                    if ne >= 2 {
                        o.insert("j".into(), j);
                    }
                    if ne >= 3 {
                        o.insert("t".into(), tx);
                    }
                    if ne >= 4 {
                        o.insert("f".into(), f);
                    }
                    Some(Value::Object(o))
                }
                _ => None,
            };
            let path = if np == 1 { format!("/sh1{ne}/{seg}") } else { format!("/sh2{ne}/{seg}/{raw2}") };
            let tag = if np == 2 && s2.is_none() && tag == "valid" { "grey" } else { tag };
            mk("POST", format!("{path}{}", if q.is_empty() { String::new() } else { format!("?{q}") }), ct, body, tag, "shape", "signature-matrix", expect)
        }
        0 => {
            let (name, lo, hi) = t::pick(&INTS);
            let (seg, tag, what, exp) = gen_int_segment(lo, hi);
            let tag = if tag == "valid" && exp.is_none() { "invalid" } else { tag };
            mk("GET", format!("/{name}/{seg}"), None, None, tag, name, what, exp.map(|e| json!({"p": [e]})))
        }
        1 => {
            let route = t::pick(&["s", "r", "cow"]);
            let (raw, dec) = gen_str_segment();
            let expect = String::from_utf8(dec).ok().map(|d| json!({"p": [d]}));
            // &str cannot carry a decoded (owned) value: refusing is documented, accepting must still be exact
            let tag = if route == "r" && raw.contains('%') { "grey" } else { "valid" };
            mk("GET", format!("/{route}/{raw}"), None, None, tag, route, "string-param", expect)
        }
        2 => {
            let (seg, tag, what, exp) = gen_int_segment(0, 255);
            let (raw, dec) = gen_str_segment();
            let tag = if tag == "valid" && exp.is_none() { "invalid" } else { tag };
            let expect = match (exp, String::from_utf8(dec)) {
                (Some(e), Ok(d)) => Some(json!({"p": [e, d]})),
                _ => None,
            };
            mk("GET", format!("/two/{seg}/{raw}"), None, None, tag, "two", what, expect)
        }
        3 => {
            let (q, tag, exp) = gen_qs();
            mk("GET", if q.is_empty() { "/q".into() } else { format!("/q?{q}") }, None, None, tag, "q", "query", exp.map(|e| json!({"q": e})))
        }
        4 => {
            let (body, tag, exp) = gen_json_body();
            let (ct, cttag): (Option<&str>, &str) = match t::weighted(&[6, 2, 1, 1, 1, 1]) {
                // a proper prefix of the type (or nothing at all) is another type
                5 => (Some(t::pick(&["application/", "application/j", "application/jso", "a", ""])), "mismatch"),
                0 => (Some("application/json"), "match"),
                1 => (Some("application/json; charset=utf-8"), "match"),
                2 => (Some("text/plain"), "mismatch"),
                3 => (None, "mismatch"),
                _ => (Some("Application/JSON"), "grey"),
            };
            let (tag, what) = match (tag, cttag) {
                (_, "mismatch") => ("invalid", "content-type-mismatch"),
                (_, "grey") => ("grey", "content-type-case"),
                (tg, _) => (tg, "json-body"),
            };
            // a body is a body under every method that has a handler declaring it
            mk(t::pick(&["POST", "POST", "PUT", "PATCH", "DELETE", "GET"]), "/json".into(), ct, Some(body), tag, "json", what, if tag == "invalid" { None } else { exp.map(|e| json!({"j": e})) })
        }
        5 => {
            let a = t::string(b"abcXYZ019-_.~", 0, 8);
            let n = t::range(0, 2000) as i32 - 1000;
            match t::weighted(&[4, 1, 1, 1, 1]) {
                4 => {
                    // not UTF-8 after decoding (escaped or raw): no String is denoted
                    let mut b = format!("a={a}").into_bytes();
                    match t::draw(3) {
                        0 => b.extend_from_slice(b"%FF"),
                        1 => b.extend_from_slice(b"%C3%28"),
                        _ => b.push(0xff),
                    }
                    b.extend_from_slice(format!("&n={n}").as_bytes());
                    mk("POST", "/form".into(), Some("application/x-www-form-urlencoded"), Some(b), "invalid", "form", "form-non-utf8-value", None)
                }
                0 => mk("POST", "/form".into(), Some("application/x-www-form-urlencoded"), Some(format!("a={a}%21&n={n}").into_bytes()), "valid", "form", "form-body", Some(json!({"f": F { a: format!("{a}!"), n }}))),
                1 => mk("POST", "/form".into(), Some("application/x-www-form-urlencoded"), Some(format!("a={a}&n=x{n}").into_bytes()), "invalid", "form", "form-bad-int", None),
                2 => mk("POST", "/form".into(), Some(t::pick(&["application/json", "application/x-www-form", "application/x-www-form-urlencode", "application/"])), Some(format!("a={a}&n={n}").into_bytes()), "invalid", "form", "content-type-mismatch", None),
                _ => mk("POST", "/form".into(), Some("application/x-www-form-urlencoded"), None, "invalid", "form", "missing-payload", None),
            }
        }
        6 => {
            match t::weighted(&[4, 2, 1]) {
                0 => {
                    let s = t::pick(&["", "hello", "caf\u{e9}\n\u{0}x", "日本"]);
                    if s.is_empty() {
                        mk("POST", "/text".into(), Some("text/plain"), None, "invalid", "text", "missing-payload", None)
                    } else {
                        mk(t::pick(&["POST", "POST", "DELETE", "GET"]), "/text".into(), Some(t::pick(&["text/plain", "text/plain; charset=UTF-8"])), Some(s.as_bytes().to_vec()), "valid", "text", "text-body", Some(json!({"t": s})))
                    }
                }
                1 => mk("POST", "/text".into(), Some("text/plain"), Some(vec![b'a', 0xff, b'b']), "invalid", "text", "text-non-utf8", None),
                _ => mk("POST", "/text".into(), Some(t::pick(&["application/octet-stream", "text", "text/", "text/plai", "t"])), Some(b"abc".to_vec()), "invalid", "text", "content-type-mismatch", None),
            }
        }
        7 => {
            let a = t::string(b"abc xyz019", 0, 10);
            let b = t::pick(&["", "v", "line1\r\nline2", "caf\u{e9}"]);
            let boundary = t::pick(&["----WebKitFormBoundary7MA4YWxkTrZu0gW", "xyz", "a-b_c123"]);
            match t::weighted(&[4, 1, 1, 1, 1, 3]) {
                5 => {
                    // files: an optional one (present, present with no bytes at all, or the part a browser sends for an
                    // input left empty) and a list of 0..3 under one name; a file of zero bytes is a file
                    const NAMES: [&str; 6] = [".gitkeep", "__init__.py", "a.txt", "\u{65e5}\u{672c}.png", "x y.bin", "report.final.pdf"];
                    const MIMES: [&str; 4] = ["text/plain", "application/octet-stream", "image/png", "text/x-python"];
                    let content = |max: usize| -> Vec<u8> {
                        let n = t::pick(&[0usize, 0, 1, 2, 17, 300, 1000]).min(max);
                        (0..n).map(|_| { let b = t::draw(256) as u8; if b == b'-' { b'_' } else { b } }).collect()
                    };
                    let part = |name: &str, file: Option<(&str, &str, &[u8])>| -> Vec<u8> {
                        // None: the input was left empty (`filename=""`, no bytes)
                        let (fname, mime, bytes) = file.unwrap_or(("", "application/octet-stream", b""));
                        let cd = format!("Content-Disposition: form-data; name=\"{name}\"; filename=\"{fname}\"\r\n");
                        let ct = format!("Content-Type: {mime}\r\n");
                        let mut v = format!("--{boundary}\r\n").into_bytes();
                        if t::chance(1, 4) {
                            v.extend_from_slice(ct.as_bytes());
                            v.extend_from_slice(cd.as_bytes());
                        } else {
                            v.extend_from_slice(cd.as_bytes());
                            v.extend_from_slice(ct.as_bytes());
                        }
                        v.extend_from_slice(b"\r\n");
                        v.extend_from_slice(bytes);
                        v.extend_from_slice(b"\r\n");
                        v
                    };
                    let note = a.clone();
                    let att: Option<(&str, &str, Vec<u8>)> = if t::chance(1, 4) { None } else { Some((t::pick(&NAMES), t::pick(&MIMES), content(1000))) };
                    let files: Vec<(&str, &str, Vec<u8>)> = (0..t::weighted(&[1, 3, 3, 2])).map(|_| (t::pick(&NAMES), t::pick(&MIMES), content(1000))).collect();
                    let mut groups: Vec<Vec<u8>> = Vec::new();
                    groups.push(format!("--{boundary}\r\nContent-Disposition: form-data; name=\"note\"\r\n\r\n{note}\r\n").into_bytes());
                    groups.push(part("attachment", att.as_ref().map(|(n, m, c)| (*n, *m, c.as_slice()))));
                    groups.push(if files.is_empty() { part("files", None) } else { files.iter().flat_map(|(n, m, c)| part("files", Some((*n, *m, c.as_slice())))).collect() });
                    t::shuffle(&mut groups);
                    let mut body: Vec<u8> = groups.concat();
                    body.extend_from_slice(format!("--{boundary}--\r\n").as_bytes());
                    let fj = |(n, m, c): &(&str, &str, Vec<u8>)| json!({"filename": n, "mimetype": m, "content": crate::client::hex(c)});
                    let what = if att.as_ref().map(|x| x.2.is_empty()).unwrap_or(false) || files.iter().any(|f| f.2.is_empty()) { "multipart-files-one-of-zero-bytes" } else { "multipart-files" };
                    let expect = json!({"up": {"note": note, "attachment": att.as_ref().map(fj), "files": files.iter().map(fj).collect::<Vec<_>>()}});
                    mk("POST", "/upload".into(), Some(&format!("multipart/form-data; boundary={boundary}")), Some(body), "valid", "upload", what, Some(expect))
                }
                3 => {
                    // the boundary text in the middle of a line of a value is content, not a delimiter (a delimiter starts a
                    // line); a parser may refuse such a body, but must not cut the value there
                    let a2 = format!("see --{boundary} for {a}");
                    mk("POST", "/multi".into(), Some(&format!("multipart/form-data; boundary={boundary}")), Some(multipart_body(boundary, &[("a", &a2), ("b", b)])), "grey", "multi", "multipart-boundary-text-inside-a-value", Some(json!({"m": MP { a: a2.clone(), b: b.to_string() }})))
                }
                4 => {
                    // a delimiter that does not start a line (no CRLF in front of it): refusing is right; a lenient parser
                    // that goes on must still deliver the whole value
                    let a2 = format!("val{a}");
                    let body = format!("--{boundary}\r\nContent-Disposition: form-data; name=\"a\"\r\n\r\n{a2}--{boundary}\r\nContent-Disposition: form-data; name=\"b\"\r\n\r\n{b}\r\n--{boundary}--\r\n").into_bytes();
                    mk("POST", "/multi".into(), Some(&format!("multipart/form-data; boundary={boundary}")), Some(body), "grey", "multi", "multipart-delimiter-not-at-line-start", Some(json!({"m": MP { a: a2.clone(), b: b.to_string() }})))
                }
                0 => mk("POST", "/multi".into(), Some(&format!("multipart/form-data; boundary={boundary}")), Some(multipart_body(boundary, &[("a", &a), ("b", b)])), "valid", "multi", "multipart-body", Some(json!({"m": MP { a: a.clone(), b: b.to_string() }}))),
                1 => mk("POST", "/multi".into(), Some(&format!("multipart/form-data; boundary={boundary}")), Some(multipart_body(boundary, &[("a", &a)])), "invalid", "multi", "multipart-missing-field", None),
                _ => mk("POST", "/multi".into(), Some(t::pick(&["application/json", "multipart/", "multipart/form-dat", "multipart"])), Some(multipart_body(boundary, &[("a", &a), ("b", b)])), "invalid", "multi", "content-type-mismatch", None),
            }
        }
        8 => {
            // Option<JSON<_>>
            let (body, tag, exp) = gen_json_body();
            match t::weighted(&[3, 2, 2, 1]) {
                0 => mk("POST", "/optjson".into(), Some("application/json"), Some(body), tag, "optjson", "option-some", exp.map(|e| json!({"j": e}))),
                1 => mk("POST", "/optjson".into(), None, None, "valid", "optjson", "option-absent", Some(json!({"j": null}))),
                2 => mk("POST", "/optjson".into(), Some("text/plain"), Some(b"hello".to_vec()), "valid", "optjson", "option-other-type", Some(json!({"j": null}))),
                _ => mk("POST", "/optjson".into(), Some("application/json"), None, "valid", "optjson", "option-no-payload", Some(json!({"j": null}))),
            }
        }
        9 => {
            // 1 param + Query + JSON
            let (seg, ptag, _w, pexp) = gen_int_segment(0, u32::MAX as i128);
            let (q, qtag, qexp) = gen_qs();
            let (body, jtag, jexp) = gen_json_body();
            let ptag = if ptag == "valid" && pexp.is_none() { "invalid" } else { ptag };
            let tags = [ptag, qtag, jtag];
            let tag = if tags.contains(&"invalid") { "invalid" } else if tags.contains(&"grey") { "grey" } else { "valid" };
            let expect = match (pexp, qexp, jexp) {
                (Some(p), Some(q), Some(j)) if tag == "valid" => Some(json!({"p": [p], "q": q, "j": j})),
                _ => None,
            };
            mk("POST", format!("/combo/{seg}{}", if q.is_empty() { String::new() } else { format!("?{q}") }), Some("application/json"), Some(body), tag, "combo", "param+query+json", expect)
        }
        _ => {
            // 1 param + Query + Option<JSON> + Option<Text>
            let (seg, ptag, _w, pexp) = gen_int_segment(i16::MIN as i128, i16::MAX as i128);
            let (q, qtag, qexp) = gen_qs();
            let ptag = if ptag == "valid" && pexp.is_none() { "invalid" } else { ptag };
            let (ct, body, j, s): (Option<&str>, Option<Vec<u8>>, Value, Value) = match t::draw(3) {
                0 => (None, None, Value::Null, Value::Null),
                1 => {
                    let jj = gen_j();
                    (Some("application/json"), Some(serde_json::to_vec(&jj).unwrap()), serde_json::to_value(&jj).unwrap(), Value::Null)
                }
                _ => (Some("text/plain"), Some(b"plain text".to_vec()), Value::Null, json!("plain text")),
            };
            let tags = [ptag, qtag];
            let tag = if tags.contains(&"invalid") { "invalid" } else if tags.contains(&"grey") { "grey" } else { "valid" };
            let expect = match (pexp, qexp) {
                (Some(p), Some(q)) if tag == "valid" => Some(json!({"p": [p], "q": q, "j": j, "t": s})),
                _ => None,
            };
            mk("POST", format!("/combo3/{seg}{}", if q.is_empty() { String::new() } else { format!("?{q}") }), ct, body, tag, "combo3", "param+query+options", expect)
        }
    }
}

pub fn generate(_cfg: &RunCfg, _out: &mut Outcome) -> Scenario {
    let n_conns = 1 + t::weighted(&[3, 1]);
    let mut conns: Vec<Vec<Req>> = (0..n_conns).map(|_| (0..t::range(2, 10)).map(|_| gen_req()).collect()).collect();
    for c in conns.iter_mut() {
        // the peer goes away in the middle of the body of the last request; prefixes that are well-formed by themselves
        // (text, the leading digits of a number, ...) are the interesting ones
        if t::chance(1, 4) {
            let mut last = match t::draw(3) {
                0 => Req { method: "POST".into(), target: "/text".into(), content_type: Some("text/plain".into()), body: b"hello, truncated world".to_vec(), has_body: true, tag: "invalid".into(), route: "text".into(), what: "body-cut-short-then-fin".into(), expect: None, cut_body_fin: None },
                1 => Req { method: "POST".into(), target: "/form".into(), content_type: Some("application/x-www-form-urlencoded".into()), body: b"a=abc&n=12345".to_vec(), has_body: true, tag: "invalid".into(), route: "form".into(), what: "body-cut-short-then-fin".into(), expect: None, cut_body_fin: None },
                _ => {
                    let mut r = gen_req();
                    r.tag = "invalid".into();
                    r.what = "body-cut-short-then-fin".into();
                    r.expect = None;
                    r
                }
            };
            if last.has_body && last.body.len() >= 2 {
                last.cut_body_fin = Some(match t::draw(3) { 0 => 0, 1 => last.body.len() - 1, _ => 1 + t::draw((last.body.len() - 1) as u32) as usize });
                c.push(last);
            }
        }
    }
    Scenario { conns }
}

pub fn run(cfg: &RunCfg, direct: Option<&serde_json::Value>) -> Outcome {
    let mut out = Outcome::new();
    let sc: Scenario = match direct {
        Some(v) => match serde_json::from_value(v.clone()) {
            Ok(s) => s,
            Err(e) => {
                out.verdict = Verdict::Inconclusive(format!("cannot decode scenario: {e}"));
                return out;
            }
        },
        None => generate(cfg, &mut out),
    };
    rt::mark_generated();
    execute(&sc, &mut out);
    out
}

fn execute(sc: &Scenario, out: &mut Outcome) {
    out.scenario = serde_json::to_value(sc).unwrap_or(Value::Null);
    out.scenario_hash = rt::fnv64(serde_json::to_string(sc).unwrap_or_default().as_bytes());
    rt::serve(build_app());
    type Obs = Rc<RefCell<Vec<Vec<Result<Resp, RecvErr>>>>>;
    let obs: Obs = Rc::new(RefCell::new(sc.conns.iter().map(|_| Vec::new()).collect()));
    for (ci, reqs) in sc.conns.iter().enumerate() {
        let o = obs.clone();
        let reqs = reqs.clone();
        simcore::spawn_task(format!("client{ci}"), "client", async move {
            let mut c: Option<Client> = None;
            for r in &reqs {
                if c.is_none() {
                    match Client::connect(rt::ADDR, ConnCfg::default()).await {
                        Ok(x) => c = Some(x),
                        Err(_) => return,
                    }
                }
                let cl = c.as_mut().unwrap();
                let mut head = format!("{} {} HTTP/1.1\r\nHost: s\r\n", r.method, r.target);
                if let Some(ct) = &r.content_type {
                    head.push_str(&format!("Content-Type: {ct}\r\n"));
                }
                if r.has_body {
                    head.push_str(&format!("Content-Length: {}\r\n", r.body.len()));
                }
                head.push_str("\r\n");
                let mut bytes = head.into_bytes();
                if r.has_body {
                    bytes.extend_from_slice(&r.body[..r.cut_body_fin.unwrap_or(r.body.len()).min(r.body.len())]);
                }
                cl.send(&bytes, 0);
                if r.cut_body_fin.is_some() {
                    cl.send_fin(t::pick(&[0u64, 1, 40]) * simcore::MS);
                    simcore::with(|w| w.count("fault.fin_inside_body"));
                }
                let resp = cl.recv(false, DEFAULT_TIMEOUT).await;
                let ok = resp.is_ok();
                o.borrow_mut()[ci].push(resp);
                if !ok {
                    c = None;
                }
            }
            if let Some(mut old) = c.take() {
                old.send_fin(0);
                let _ = old.drain_until_close(DEFAULT_TIMEOUT).await;
            }
        });
    }
    let end = simcore::run();
    let panics = rt::panicked_tasks();
    if let Some((_, _, file, _, msg)) = panics.first() {
        let all: Vec<String> = sc.conns.iter().flatten().map(|r| format!("{} {}", r.method, r.target)).collect();
        out.violate("no-panic", rt::panic_site(file, msg), format!("a server task panicked at {file}: {msg}; requests {all:?}"));
        return;
    }
    if matches!(end, simcore::EndReason::StepCap | simcore::EndReason::TimeCap) {
        out.verdict = Verdict::Inconclusive(format!("{end:?}"));
        return;
    }
    let obs = obs.borrow();
    let (mut n_ran, mut n_stopped) = (0, 0);
    for (ci, reqs) in sc.conns.iter().enumerate() {
        let mut prev_param_route = false;
        for (k, r) in reqs.iter().enumerate() {
            let Some(resp) = obs[ci].get(k) else { break };
            let desc = format!("{} {} (route {}, {}, {}; Content-Type {:?}; body {:?})", r.method, r.target, r.route, r.tag, r.what, r.content_type, String::from_utf8_lossy(&r.body).chars().take(120).collect::<String>());
            let resp = match resp {
                Ok(x) => x,
                Err(RecvErr::Closed(_)) | Err(RecvErr::Reset(_)) if r.cut_body_fin.is_some() => {
                    // a request that never arrived completely may be dropped without an answer (C02)
                    out.probe("c07.body_cut_short_not_delivered");
                    n_stopped += 1;
                    continue;
                }
                Err(e) => {
                    out.violate("ran-or-error-response", format!("{}/{}/no-response", r.route, r.what), format!("{desc}: {}", format!("{e:?}").chars().take(100).collect::<String>()));
                    return;
                }
            };
            let did_run = resp.header("X-Ran").is_some();
            out.states.push(format!("{}|{}|{}", r.route, r.tag, if did_run { "ran" } else { "stopped" }));
            if did_run {
                n_ran += 1;
                let echoed: Value = serde_json::from_str(&resp.body_text()).unwrap_or(Value::Null);
                match (r.tag.as_str(), &r.expect) {
                    ("invalid", _) => {
                        out.violate("exact-values-or-stopped", format!("{}/{}/ran-on-invalid", r.route, r.what), format!("{desc}: the declared item cannot be produced, yet the handler ran and saw {echoed}"));
                        return;
                    }
                    (_, Some(e)) => {
                        if &echoed != e {
                            out.violate("exact-values-or-stopped", format!("{}/{}/wrong-value", r.route, r.what), format!("{desc}: the handler saw {echoed}, the request denotes {e}"));
                            return;
                        }
                    }
                    (_, None) => {
                        // grey without a reference value: for integer routes the reference is FromStr on the decoded segment
                        if let Some((_, lo, hi)) = INTS.iter().find(|(n, _, _)| *n == r.route) {
                            let seg = r.target.rsplit('/').next().unwrap_or("");
                            let dec = String::from_utf8(percent_decode(seg.as_bytes())).unwrap_or_default();
                            let reference: Option<i128> = dec.parse::<i128>().ok().filter(|v| v >= lo && v <= hi);
                            let got = echoed["p"][0].as_str().and_then(|s| s.parse::<i128>().ok());
                            if reference.is_none() || reference != got {
                                out.violate("exact-values-or-stopped", format!("{}/{}/wrong-value", r.route, r.what), format!("{desc}: the handler saw {echoed}, FromStr of the decoded segment gives {reference:?}"));
                                return;
                            }
                        }
                    }
                }
                // Option extractors: None only when the request does not carry the item
                if r.route == "optjson" && echoed["j"].is_null() {
                    let carried = r.has_body && r.content_type.as_deref().map(|c| c.starts_with("application/json")).unwrap_or(false);
                    if carried {
                        out.violate("option-none-only-when-absent", "optjson", format!("{desc}: Option<JSON<_>> was None although the request carries a JSON body"));
                        return;
                    }
                    out.probe("c07.option_none_when_absent");
                }
                match (r.route.as_str(), r.what.as_str()) {
                    (_, "in-range-canonical") => out.probe("c07.int_at_bound_accepted"),
                    ("two", _) => out.probe("c07.two_params"),
                    ("json", _) => out.probe("c07.json_valid"),
                    ("multi", _) => out.probe("c07.multipart_valid"),
                    ("upload", "multipart-files-one-of-zero-bytes") => out.probe("c07.multipart_file_of_zero_bytes"),
                    ("upload", _) => out.probe("c07.multipart_files"),
                    ("q", _) => out.probe("c07.query_valid"),
                    ("form", _) => out.probe("c07.form_valid"),
                    _ => {}
                }
                let is_param_route = r.target.matches('/').count() >= 2;
                if is_param_route && prev_param_route {
                    out.probe("c07.param_after_param_on_same_connection");
                }
                prev_param_route = is_param_route;
            } else {
                n_stopped += 1;
                prev_param_route = false;
                if resp.status < 400 {
                    out.violate("ran-or-error-response", format!("{}/{}/status-{}", r.route, r.what, resp.status), format!("{desc}: the handler did not run but the status is {}", resp.status));
                    return;
                }
                if r.tag == "valid" {
                    out.violate("acceptance-floor", format!("{}/{}/status-{}", r.route, r.what, resp.status), format!("{desc}: a valid, canonically spelled request was refused with {} {:?}", resp.status, resp.body_text().chars().take(100).collect::<String>()));
                    return;
                }
                match r.what.as_str() {
                    "beyond-bounds" => out.probe("c07.int_beyond_bound_stopped"),
                    "digits-plus-garbage" => out.probe("c07.digits_plus_garbage_stopped"),
                    "content-type-mismatch" => out.probe("c07.content_type_mismatch_stopped"),
                    "text-non-utf8" => out.probe("c07.text_non_utf8_stopped"),
                    _ => {}
                }
                if r.route == "json" && r.what == "json-body" {
                    out.probe("c07.json_invalid_stopped");
                }
            }
        }
    }
    out.nontrivial = n_ran > 0 && n_stopped > 0;
}
