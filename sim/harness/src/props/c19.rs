//! C19 — a mounted directory serves exactly its files, byte-identical, and nothing else.
//! Real `std::fs` on a per-run scratch tree that the scenario builds and, after start-up, mutates as a fault.

use super::PropInfo;
use crate::client::{Client, RecvErr, Resp, DEFAULT_TIMEOUT};
use crate::rt::{self, t, Outcome, RunCfg, Verdict};
use ohkami::{Ohkami, Route};
use serde::{Deserialize, Serialize};
use simcore::ConnCfg;
use std::cell::RefCell;
use std::collections::BTreeMap;
use std::path::PathBuf;
use std::rc::Rc;

pub const INFO: PropInfo = PropInfo {
    quick_runs: 10_000,
    thorough_runs: 300_000,
    rule: "each run = one generated directory tree on the real file system (nesting 0..3, 0..12 files, names over the route alphabet incl. names colliding after extension stripping and directory names with dots, all 16 supported extensions, empty / binary / UTF-8 contents, index.html at any level, files next to the directory) \
           mounted with a generated omit-extension setting at a mount route of depth 0..3 next to an ordinary route (in a quarter of the runs next to a second directory with the same relative paths, sizes and modification times but other bytes), then 4..20 requests (every file, every directory with and without trailing slash, HEAD, traversal and encoding variants, stripped/added extensions, outside names, names added later) \
           interleaved with post-start-up mutations of the tree (overwrite, truncate, delete, rename, add, replace by directory); non-trivial = at least one file was served and one path refused; distinct = distinct hash of (tree, settings, requests, mutations)",
    state_measure: "(request kind, outcome, mutation-before-request kind) combinations",
    assumptions: &[
        "no symlinks under a mounted directory",
        "configurations the model itself rejects (two files with one route, unsupported or missing extension, non-UTF-8 text file, a name that is not a valid route segment) are expected to panic at start-up and are discarded, not counted",
        "read_dir order only permutes registration order (which by C01 must not matter) and never enters the trace",
    ],
    expected_probes: &["c19.file_served", "c19.index_at_directory_path", "c19.omitted_extension", "c19.traversal_refused", "c19.outside_file_refused", "c19.mutation_before_request", "c19.added_later_refused", "c19.head", "c19.rejected_config_panicked", "c19.dotted_directory_name", "c19.empty_file", "c19.two_directories_mounted", "c19.same_path_size_mtime_other_bytes", "c19.mounted_through_a_symlink_or_dotdot"],
};

#[derive(Clone, Debug, Serialize, Deserialize)]
pub struct FileSpec {
    /// relative path segments under the directory
    pub path: Vec<String>,
    #[serde(with = "crate::rt::hexser")]
    pub content: Vec<u8>,
    /// this name is a hard link of an earlier file of the list (`cp -l`, de-duplicated assets): one inode, two regular files
    #[serde(default)]
    pub hard_link_of: Option<usize>,
    /// (wave 14) the file holds `content` this many times over (0 = once): files of 64 KiB and more without megabytes of
    /// scenario text — large payloads take other paths through a sender than small ones
    #[serde(default)]
    pub repeat: u32,
}
impl FileSpec {
    pub fn bytes(&self) -> Vec<u8> {
        self.content.repeat(self.repeat.max(1) as usize)
    }
}
#[derive(Clone, Debug, Serialize, Deserialize)]
pub enum Mutation {
    Overwrite(usize),
    Truncate(usize),
    Delete(usize),
    Rename(usize),
    Add(String),
    ReplaceByDir(usize),
}
#[derive(Clone, Debug, Serialize, Deserialize)]
pub struct Req {
    pub method: String,
    pub path: String,
    pub kind: String,
    pub mutate_before: Option<Mutation>,
    /// (wave 18) the request asks for `Range: bytes=0-<n>` with n far behind the end of any file: the whole file is the
    /// answer either way — 200, or 206 with the range clamped (RFC 9110 14.1.2) — never 416
    #[serde(default)]
    pub range_beyond_end: bool,
    /// (after wave 16) fault: just before this request another client asks for a large file through a small window, reads a
    /// little and resets its connection — the server's write fails half way. What that client was owed is nobody's business;
    /// this request must be answered as always
    #[serde(default)]
    pub neighbour_aborts_a_large_download: bool,
}
#[derive(Clone, Debug, Serialize, Deserialize)]
pub struct Scenario {
    pub files: Vec<FileSpec>,
    /// files created next to the mounted directory (must never be served)
    pub outside: Vec<String>,
    pub mount: String,
    pub omit: Vec<String>,
    pub reqs: Vec<Req>,
    /// a second directory mounted in the same application: same relative paths and sizes, other bytes
    #[serde(default)]
    pub second: Option<Second>,
    /// how the directory is named when it is mounted: 0 by its real path, 1 through a symbolic link that sits two levels
    /// deeper than its target, 2 through a symbolic link one level higher, 3 by a path with a `..` component, 4 by its real
    /// path, which has a dot-prefixed ancestor
    /// (state of the file system at start-up; the files served must be the same)
    #[serde(default)]
    pub mount_via: u8,
}
#[derive(Clone, Debug, Serialize, Deserialize)]
pub struct Second {
    pub mount: String,
    /// every file of both trees carries the same modification time (reproducible archives, `cp -p`)
    pub same_mtime: bool,
}

/// same length, other bytes (ASCII letters and digits rotate within their class; UTF-8 validity is kept)
pub fn alter(content: &[u8]) -> Vec<u8> {
    content
        .iter()
        .map(|b| match *b {
            b'a'..=b'y' | b'A'..=b'Y' | b'0'..=b'8' => b + 1,
            b'z' => b'a',
            b'Z' => b'A',
            b'9' => b'0',
            o => o,
        })
        .collect()
}

const EXTS: [(&str, &str); 16] = [
    ("txt", "text/plain"), ("html", "text/html"), ("css", "text/css"), ("js", "text/javascript"), ("xml", "text/xml"), ("csv", "text/csv"), ("tsv", "text/tab-separated-values"), ("vcard", "text/vcard"),
    ("jpeg", "image/jpeg"), ("gif", "image/gif"), ("png", "image/png"), ("svg", "image/svg+xml"), ("woff", "font/woff"), ("woff2", "font/woff2"), ("json", "application/json"), ("pdf", "application/pdf"),
];
// names over the whole route-segment alphabet, including runs of dots, dashes and underscores inside a name
const STEMS: [&str; 14] = ["a", "b", "index", "app", "a.b", "x-y_z", "main", "data", "A1", "about", "a..b", "report...final", "x--y", "z__9"];
const DIRS: [&str; 9] = ["docs", "img", "v1.2", "a", "docs.html", "static", "x.txt", "v1..2", "0"];

fn mime_of(name: &str) -> Option<&'static str> {
    let ext = name.rsplit_once('.')?.1;
    EXTS.iter().find(|(e, _)| *e == ext).map(|(_, m)| *m)
}

fn gen_content(ext: &str) -> Vec<u8> {
    let text = mime_of(&format!("x.{ext}")).map(|m| m.starts_with("text/")).unwrap_or(false);
    match t::weighted(&[2, 4, 2, 1]) {
        0 => Vec::new(),
        1 => t::string(b"abc <>{}\n;:/*", 1, 60).into_bytes(),
        2 => {
            if text {
                format!("caf\u{e9} 日本 {}", t::string(b"xyz", 0, 2000)).into_bytes()
            } else {
                t::bytes(1, 3000)
            }
        }
        _ => {
            if text {
                if t::chance(1, 12) {
                    vec![b'a', 0xff, b'b'] // a text file that is not UTF-8: the configuration must be rejected
                } else {
                    t::string(b"0123456789 \n", 1, 40).into_bytes()
                }
            } else {
                t::bytes(1, 40)
            }
        }
    }
}

pub fn generate(_cfg: &RunCfg, _out: &mut Outcome) -> Scenario {
    let n = t::range(0, 12) as usize;
    let mut files: Vec<FileSpec> = Vec::new();
    for _ in 0..n {
        let depth = t::weighted(&[5, 3, 2, 1]);
        let mut path: Vec<String> = (0..depth).map(|_| t::pick(&DIRS).to_string()).collect();
        let mut ext = t::pick(&EXTS).0;
        // one file in eight is a second name (hard link) of an earlier one: same bytes, same extension, another place
        let link_to: Option<usize> = if !files.is_empty() && t::chance(1, 8) {
            let j = t::draw(files.len() as u32) as usize;
            let je = files[j].path.last().and_then(|n| n.rsplit_once('.')).map(|x| x.1.to_string()).unwrap_or_default();
            match EXTS.iter().find(|(e, _)| *e == je) {
                Some((e, _)) => {
                    ext = e;
                    Some(j)
                }
                None => None,
            }
        } else {
            None
        };
        let name = match if link_to.is_some() { 0 } else { t::weighted(&[120, 30, 1, 1, 1, 12]) } {
            // names that merely end in (or contain) the index file's name
            5 => t::pick(&["old-index.html", "reindex.html", "index.html.txt", "index.htm.html", "xindex.html", "index.css"]).to_string(),
            0 => format!("{}.{}", t::pick(&STEMS), ext),
            1 => "index.html".to_string(),
            2 => t::pick(&STEMS).to_string(),                       // no extension: rejected
            3 => format!("{}.{}", t::pick(&STEMS), t::pick(&["md", "exe", "HTML"])), // unknown extension: rejected
            _ => format!(".{}.{}", t::pick(&STEMS), ext),            // hidden file: not a valid route segment
        };
        path.push(name.clone());
        if files.iter().any(|f| f.path == path) {
            continue;
        }
        // a name used as a file cannot also be a directory on disk
        if files.iter().any(|f| f.path.len() > path.len() && f.path[..path.len()] == path[..]) || files.iter().any(|f| path.len() > f.path.len() && path[..f.path.len()] == f.path[..]) {
            continue;
        }
        let e = name.rsplit_once('.').map(|x| x.1).unwrap_or("");
        match link_to {
            Some(j) => {
                let content = files[j].content.clone();
                let repeat = files[j].repeat;
                files.push(FileSpec { path, content, hard_link_of: Some(j), repeat })
            }
            None => {
                let content = gen_content(e);
                // one file in twelve is large: 64 KiB … 400 KiB
                let repeat = if content.len() >= 16 && t::chance(1, 12) { ((65_536 + t::range(0, 200_000) as usize) / content.len() + 1) as u32 } else { 0 };
                files.push(FileSpec { path, content, hard_link_of: None, repeat })
            }
        }
    }
    let outside: Vec<String> = (0..t::draw(3)).map(|i| format!("outside{i}.txt")).collect();
    let mount = match t::weighted(&[2, 4, 2, 1]) {
        0 => "/".to_string(),
        1 => "/public".to_string(),
        2 => "/static/files".to_string(),
        _ => "/a/b/c".to_string(),
    };
    let omit: Vec<String> = match t::weighted(&[4, 3, 2, 1]) {
        0 => vec![],
        1 => vec!["html".into()],
        2 => vec![t::pick(&EXTS).0.to_string(), "html".into()],
        _ => vec!["txt".into(), "css".into(), "json".into()],
    };
    let second = if t::chance(1, 4) { Some(Second { mount: t::pick(&["/mirror", "/v2/files"]).to_string(), same_mtime: t::chance(2, 3) }) } else { None };
    // requests
    let m1 = mount.trim_end_matches('/').to_string();
    let nreq = t::range(4, 20) as usize;
    let mut reqs = Vec::new();
    let mut later_names: Vec<String> = Vec::new();
    for _ in 0..nreq {
        let mutate_before = if !files.is_empty() && t::chance(1, 4) {
            let i = t::draw(files.len() as u32) as usize;
            Some(match t::draw(6) {
                0 => Mutation::Overwrite(i),
                1 => Mutation::Truncate(i),
                2 => Mutation::Delete(i),
                3 => Mutation::Rename(i),
                4 => {
                    let name = format!("later{}.txt", later_names.len());
                    later_names.push(name.clone());
                    Mutation::Add(name)
                }
                _ => Mutation::ReplaceByDir(i),
            })
        } else {
            None
        };
        let method = if t::chance(1, 6) { "HEAD" } else { "GET" };
        let m = match &second {
            Some(s2) if t::chance(1, 2) => s2.mount.clone(),
            _ => m1.clone(),
        };
        let (path, kind): (String, &str) = if files.is_empty() || t::chance(1, 8) {
            (format!("{m}/{}", t::pick(&["nothing.txt", "", "index.html", "a"])), "random")
        } else {
            let f = t::pick(&files);
            let full = format!("{m}/{}", f.path.join("/"));
            let dir = format!("{m}/{}", f.path[..f.path.len() - 1].join("/"));
            let last = f.path.last().unwrap().clone();
            let stem = last.rsplit_once('.').map(|x| x.0.to_string()).unwrap_or(last.clone());
            match t::weighted(&[8, 3, 2, 2, 2, 2, 2, 1, 1, 1, 1]) {
                0 => (full, "file"),
                1 => (dir.trim_end_matches('/').to_string(), "directory"),
                2 => (format!("{}/", dir.trim_end_matches('/')), "directory-slash"),
                3 => (format!("{}/{}", dir.trim_end_matches('/'), stem), "stripped-extension"),
                4 => (format!("{full}.html"), "added-extension"),
                5 => (format!("{m}/../{}", t::pick(&["outside0.txt", "secret", "etc/passwd"])), "dotdot"),
                6 => (format!("{m}/{}/../{}", f.path.first().unwrap(), f.path.join("/")), "dotdot-inside"),
                7 => (format!("{m}/%2e%2e/outside0.txt"), "pct-dotdot"),
                8 => (full.replacen('/', "//", 2), "doubled-slash"),
                9 => (format!("{m}/{}", f.path.join("%2F")), "pct-slash"),
                _ => (format!("{m}/{}", later_names.last().cloned().unwrap_or_else(|| "later0.txt".into())), "added-later"),
            }
        };
        let path = if path.is_empty() { "/".to_string() } else { path };
        reqs.push(Req { method: method.into(), path, kind: kind.into(), mutate_before, range_beyond_end: t::chance(1, 10), neighbour_aborts_a_large_download: t::chance(1, 5) });
    }
    Scenario { files, outside, mount, omit, reqs, second, mount_via: t::weighted(&[6, 1, 1, 1, 1]) as u8 }
}

pub fn run(cfg: &RunCfg, direct: Option<&serde_json::Value>) -> Outcome {
    let mut out = Outcome::new();
    let sc: Scenario = match direct {
        Some(v) => match serde_json::from_value(v.clone()) {
            Ok(s) => s,
            Err(e) => {
                out.verdict = Verdict::Inconclusive(format!("cannot decode scenario: {e}"));
                return out;
            }
        },
        None => generate(cfg, &mut out),
    };
    rt::mark_generated();
    execute(&sc, &mut out);
    out
}

/// the directory model (DESIGN.md A.6): route -> (content type, bytes); Err = the configuration must be rejected
pub fn model(sc: &Scenario) -> Result<BTreeMap<String, (String, Vec<u8>)>, String> {
    let mut table = model_one(sc)?;
    if let Some(s2) = &sc.second {
        let mut other = sc.clone();
        other.second = None;
        other.mount = s2.mount.clone();
        for f in other.files.iter_mut() {
            f.content = alter(&f.content);
        }
        for (k, v) in model_one(&other)? {
            if table.insert(k.clone(), v).is_some() {
                return Err(format!("two files share the route {k}"));
            }
        }
    }
    Ok(table)
}

fn model_one(sc: &Scenario) -> Result<BTreeMap<String, (String, Vec<u8>)>, String> {
    let mut table: BTreeMap<String, (String, Vec<u8>)> = BTreeMap::new();
    let m = sc.mount.trim_end_matches('/').to_string();
    let valid_seg = |s: &str| -> bool {
        let b = s.as_bytes();
        !b.is_empty() && b[0].is_ascii_alphanumeric() && b[b.len() - 1].is_ascii_alphanumeric() && b.iter().all(|c| c.is_ascii_alphanumeric() || matches!(c, b'.' | b'-' | b'_'))
    };
    for f in &sc.files {
        let name = f.path.last().unwrap();
        let Some(mime) = mime_of(name) else { return Err(format!("unsupported or missing extension: {name}")) };
        if mime.starts_with("text/") && std::str::from_utf8(&f.content).is_err() {
            return Err(format!("non-UTF-8 text file {name}"));
        }
        let mut routes: Vec<Vec<String>> = Vec::new();
        let strip = |seg: &str| -> String {
            for e in &sc.omit {
                if let Some(s) = seg.strip_suffix(&format!(".{e}")) {
                    return s.to_string();
                }
            }
            seg.to_string()
        };
        if name == "index.html" {
            let dir: Vec<String> = f.path[..f.path.len() - 1].to_vec();
            routes.push(dir);
            if !sc.omit.iter().any(|e| e == "html") {
                routes.push(f.path.clone());
            }
        } else {
            let mut p = f.path.clone();
            let last = p.pop().unwrap();
            p.push(strip(&last));
            routes.push(p);
        }
        for r in routes {
            if r.iter().any(|s| !valid_seg(s)) {
                return Err(format!("not a valid route segment in {r:?}"));
            }
            let route = if r.is_empty() { if m.is_empty() { "/".to_string() } else { m.clone() } } else { format!("{m}/{}", r.join("/")) };
            if table.insert(route.clone(), (mime.to_string(), f.bytes())).is_some() {
                return Err(format!("two files share the route {route}"));
            }
        }
    }
    if table.contains_key("/hello") {
        return Err("collides with the ordinary route /hello".into());
    }
    Ok(table)
}

fn leak(s: &str) -> &'static str {
    Box::leak(s.to_string().into_boxed_str())
}

fn normalise_request_path(p: &str) -> String {
    let mut s = p.to_string();
    if s.len() > 1 && s.ends_with('/') {
        s.pop();
    }
    s
}

fn execute(sc: &Scenario, out: &mut Outcome) {
    out.scenario = serde_json::to_value(sc).unwrap_or(serde_json::Value::Null);
    out.scenario_hash = rt::fnv64(serde_json::to_string(sc).unwrap_or_default().as_bytes());
    // ---- the scratch tree
    let base = PathBuf::from(format!("/verif/target/simfs/{}", std::process::id()));
    let _ = std::fs::remove_dir_all(&base);
    let root = base.join("www");
    if std::fs::create_dir_all(&root).is_err() {
        out.verdict = Verdict::Inconclusive("cannot create scratch directory".into());
        return;
    }
    for f in &sc.files {
        let p = f.path.iter().fold(root.clone(), |a, s| a.join(s));
        let _ = std::fs::create_dir_all(p.parent().unwrap());
        let made = match f.hard_link_of.and_then(|j| sc.files.get(j)) {
            Some(orig) => {
                out.probe("c19.hard_linked_file");
                std::fs::hard_link(orig.path.iter().fold(root.clone(), |a, s| a.join(s)), &p)
            }
            None => std::fs::write(&p, f.bytes()),
        };
        if made.is_err() {
            out.verdict = Verdict::Discard; // e.g. a name is both file and directory
            let _ = std::fs::remove_dir_all(&base);
            return;
        }
    }
    for o in &sc.outside {
        let _ = std::fs::write(base.join(o), b"OUTSIDE - must never be served");
    }
    let root_b = base.join("www2");
    if let Some(s2) = &sc.second {
        out.probe("c19.two_directories_mounted");
        let _ = std::fs::create_dir_all(&root_b);
        for f in &sc.files {
            let p = f.path.iter().fold(root_b.clone(), |a, s| a.join(s));
            let _ = std::fs::create_dir_all(p.parent().unwrap());
            let _ = std::fs::write(&p, alter(&f.bytes()));
        }
        if s2.same_mtime {
            out.probe("c19.same_path_size_mtime_other_bytes");
            let when = std::time::UNIX_EPOCH + std::time::Duration::from_secs(1_700_000_000);
            for r in [&root, &root_b] {
                for f in &sc.files {
                    let p = f.path.iter().fold(r.clone(), |a, s| a.join(s));
                    if let Ok(fh) = std::fs::File::options().write(true).open(&p) {
                        let _ = fh.set_modified(when);
                    }
                }
            }
        }
    }
    if sc.files.iter().any(|f| f.path.iter().rev().skip(1).any(|d| d.contains('.'))) {
        out.probe("c19.dotted_directory_name");
    }
    if sc.files.iter().any(|f| f.content.is_empty()) {
        out.probe("c19.empty_file");
    }
    let expected = model(sc);

    // ---- mount (start-up)
    let named: PathBuf = match sc.mount_via {
        1 => {
            let d = base.join("l1").join("l2");
            let _ = std::fs::create_dir_all(&d);
            let _ = std::os::unix::fs::symlink(&root, d.join("site"));
            d.join("site")
        }
        2 => {
            // target two levels down, the link directly under the base
            let deep = base.join("r1").join("r2");
            let _ = std::fs::create_dir_all(&deep);
            let _ = std::fs::rename(&root, deep.join("www"));
            let _ = std::os::unix::fs::symlink(deep.join("www"), &root);
            root.clone()
        }
        3 => {
            let _ = std::fs::create_dir_all(base.join("work"));
            base.join("work").join("..").join("www")
        }
        4 => {
            // the directory lives under a dot-prefixed ancestor (~/.local/share/.., a CI workspace, a temporary directory)
            let hidden = base.join(".deploy").join("current");
            let _ = std::fs::create_dir_all(&hidden);
            let _ = std::fs::rename(&root, hidden.join("www"));
            // (post-start-up mutations keep using the old name)
            let _ = std::os::unix::fs::symlink(hidden.join("www"), &root);
            hidden.join("www")
        }
        _ => root.clone(),
    };
    if sc.mount_via != 0 {
        out.probe("c19.mounted_through_a_symlink_or_dotdot");
    }
    let dir_lit = leak(named.to_str().unwrap());
    let mount_lit = leak(&sc.mount);
    let omit: Vec<&'static str> = sc.omit.iter().map(|s| leak(s)).collect();
    let built = std::panic::catch_unwind(std::panic::AssertUnwindSafe(|| {
        let d = mount_lit.Dir(dir_lit);
        let d = match omit.len() {
            0 => d,
            1 => d.omit_extensions([omit[0]]),
            2 => d.omit_extensions([omit[0], omit[1]]),
            _ => d.omit_extensions([omit[0], omit[1], omit[2]]),
        };
        match &sc.second {
            Some(s2) => {
                let d2 = leak(&s2.mount).Dir(leak(root_b.to_str().unwrap()));
                let d2 = match omit.len() {
                    0 => d2,
                    1 => d2.omit_extensions([omit[0]]),
                    2 => d2.omit_extensions([omit[0], omit[1]]),
                    _ => d2.omit_extensions([omit[0], omit[1], omit[2]]),
                };
                Ohkami::new((d, d2, "/hello".GET(|| async { "hello" })))
            }
            None => Ohkami::new((d, "/hello".GET(|| async { "hello" }))),
        }
    }));
    let cleanup = || {
        let _ = std::fs::remove_dir_all(&base);
    };
    let app = match (built, &expected) {
        (Ok(a), Ok(_)) => a,
        (Err(_), Err(why)) => {
            let _ = simcore::LAST_PANIC.with(|p| p.borrow_mut().take());
            out.probe("c19.rejected_config_panicked");
            out.probe(&format!("c19.discard:{}", why.split(':').next().unwrap_or("").split(' ').take(3).collect::<Vec<_>>().join("-")));
            out.verdict = Verdict::Discard;
            cleanup();
            return;
        }
        (Err(_), Ok(_)) => {
            let info = simcore::LAST_PANIC.with(|p| p.borrow_mut().take());
            out.violate("start-up", "panic-on-legal-tree", format!("mounting panicked though the tree is legal: {:?}; files {:?} omit {:?}", info.map(|i| i.message), sc.files.iter().map(|f| f.path.join("/")).collect::<Vec<_>>(), sc.omit));
            cleanup();
            return;
        }
        (Ok(_), Err(why)) => {
            // the model would reject; ohkami accepted: only "nothing else is served" can still be judged, skip
            out.probe(&format!("c19.discard-accepted:{}", why.split(':').next().unwrap_or("").split(' ').take(3).collect::<Vec<_>>().join("-")));
            out.verdict = Verdict::Discard;
            cleanup();
            return;
        }
    };
    let expected = expected.unwrap();
    rt::serve(app);
    if !simcore::with(|w| w.listener_open(rt::ADDR)) {
        let p = rt::all_panicked_tasks();
        // route conflicts etc. are detected when the router is finalized inside howl
        out.violate("start-up", "panic-at-finalize", format!("server did not start: {:?}; files {:?} omit {:?}", p.first().map(|x| x.4.clone()), sc.files.iter().map(|f| f.path.join("/")).collect::<Vec<_>>(), sc.omit));
        cleanup();
        return;
    }

    let obs: Rc<RefCell<Vec<Result<Resp, RecvErr>>>> = Rc::new(RefCell::new(Vec::new()));
    let o = obs.clone();
    let reqs = sc.reqs.clone();
    let files = sc.files.clone();
    let root2 = root.clone();
    let large = sc.files.iter().any(|f| f.repeat > 1);
    if large {
        out.probe("c19.file_of_64_kib_or_more");
    }
    let window_for_large = 700 + sc.files.iter().map(|f| f.bytes().len()).sum::<usize>() % 90_000;
    // a route that serves a large file (None when the configuration has none, or is refused at start-up)
    let large_route: Option<String> = expected.iter().find(|(_, (_, b))| b.len() >= 65_536).map(|(r, _)| r.clone());
    simcore::spawn_task("client", "client", async move {
        let mut c: Option<Client> = None;
        for r in &reqs {
            if let Some(m) = &r.mutate_before {
                // fault: the disk changes after start-up
                let path_of = |i: usize| files[i % files.len()].path.iter().fold(root2.clone(), |a, s| a.join(s));
                match m {
                    Mutation::Overwrite(i) => {
                        let _ = std::fs::write(path_of(*i), b"OVERWRITTEN AFTER START-UP");
                        simcore::with(|w| w.count("fault.fs_overwrite"));
                    }
                    Mutation::Truncate(i) => {
                        let _ = std::fs::write(path_of(*i), b"");
                        simcore::with(|w| w.count("fault.fs_truncate"));
                    }
                    Mutation::Delete(i) => {
                        let _ = std::fs::remove_file(path_of(*i));
                        simcore::with(|w| w.count("fault.fs_delete"));
                    }
                    Mutation::Rename(i) => {
                        let p = path_of(*i);
                        let _ = std::fs::rename(&p, p.with_file_name("renamed.txt"));
                        simcore::with(|w| w.count("fault.fs_rename"));
                    }
                    Mutation::Add(name) => {
                        let _ = std::fs::write(root2.join(name), b"ADDED AFTER START-UP");
                        simcore::with(|w| w.count("fault.fs_add"));
                    }
                    Mutation::ReplaceByDir(i) => {
                        let p = path_of(*i);
                        let _ = std::fs::remove_file(&p);
                        let _ = std::fs::create_dir_all(&p);
                        simcore::with(|w| w.count("fault.fs_replace_by_dir"));
                    }
                }
            }
            if let (true, Some(lr)) = (r.neighbour_aborts_a_large_download, &large_route) {
                if let Ok(mut nb) = Client::connect(rt::ADDR, ConnCfg { short_writes: true, window: 300, ..ConnCfg::default() }).await {
                    nb.send(format!("GET {lr} HTTP/1.1\r\nHost: s\r\n\r\n").as_bytes(), 0);
                    let _ = nb.fill(200, DEFAULT_TIMEOUT).await;
                    nb.send_rst(std::io::ErrorKind::ConnectionReset, 0);
                    simcore::with(|w| w.count("fault.download_aborted_half_way"));
                    drop(nb);
                    simcore::sleep(simcore::MS).await;
                }
            }
            if c.is_none() {
                // with a large file around, the transport takes what it likes of each write and the client's window is small
                let cfg = if large { ConnCfg { short_writes: true, window: window_for_large, ..ConnCfg::default() } } else { ConnCfg::default() };
                match Client::connect(rt::ADDR, cfg).await {
                    Ok(x) => c = Some(x),
                    Err(_) => return,
                }
            }
            let cl = c.as_mut().unwrap();
            let range = if r.range_beyond_end { "Range: bytes=0-99999999\r\n" } else { "" };
            cl.send(format!("{} {} HTTP/1.1\r\nHost: s\r\n{range}\r\n", r.method, r.path).as_bytes(), 0);
            let resp = cl.recv(r.method == "HEAD", DEFAULT_TIMEOUT).await;
            let ok = resp.is_ok();
            o.borrow_mut().push(resp);
            if !ok {
                c = None;
            }
        }
        if let Some(mut old) = c.take() {
            old.send_fin(0);
            let _ = old.drain_until_close(DEFAULT_TIMEOUT).await;
        }
    });
    let end = simcore::run();
    cleanup();

    let panics = rt::panicked_tasks();
    if let Some((_, _, file, _, msg)) = panics.first() {
        out.violate("no-panic", rt::panic_site(file, msg), format!("a server task panicked at {file}: {msg}"));
        return;
    }
    if matches!(end, simcore::EndReason::StepCap | simcore::EndReason::TimeCap) {
        out.verdict = Verdict::Inconclusive(format!("{end:?}"));
        return;
    }
    let obs = obs.borrow();
    let (mut served, mut refused) = (0, 0);
    let mut mutated = false;
    for (k, r) in sc.reqs.iter().enumerate() {
        let Some(resp) = obs.get(k) else { break };
        if r.mutate_before.is_some() {
            mutated = true;
        }
        let desc = format!("{} {} ({}); mount {} omit {:?}; files {:?}", r.method, r.path, r.kind, sc.mount, sc.omit, sc.files.iter().map(|f| f.path.join("/")).collect::<Vec<_>>());
        let resp = match resp {
            Ok(x) => x,
            Err(e) => {
                out.violate("answered", format!("{}/no-response", r.kind), format!("{desc}: {}", format!("{e:?}").chars().take(100).collect::<String>()));
                return;
            }
        };
        let key = normalise_request_path(&r.path);
        out.states.push(format!("{}|{}|{}", r.kind, resp.status, r.mutate_before.as_ref().map(|m| format!("{m:?}").split('(').next().unwrap_or("").to_string()).unwrap_or_else(|| "-".into())));
        match expected.get(&key) {
            Some((mime, bytes)) => {
                if r.range_beyond_end {
                    out.probe("c19.range_beyond_the_end");
                }
                // (a range on an empty file is unsatisfiable: a server that knows ranges may say 416 there, and only there)
                if r.range_beyond_end && bytes.is_empty() && resp.status == 416 {
                    continue;
                }
                if resp.status != 200 && !(r.range_beyond_end && resp.status == 206) {
                    out.violate("serves-its-files", format!("{}/status-{}", r.kind, resp.status), format!("{desc}: expected the start-up content of that file, got {}", resp.status));
                    return;
                }
                if resp.header("content-type") != Some(mime.as_str()) {
                    out.violate("serves-its-files", format!("{}/content-type", r.kind), format!("{desc}: Content-Type {:?}, expected {mime}", resp.header("content-type")));
                    return;
                }
                if r.method == "HEAD" {
                    out.probe("c19.head");
                    if !resp.body.is_empty() {
                        out.violate("serves-its-files", "head-with-body", format!("{desc}: HEAD answered with a body"));
                        return;
                    }
                } else if &resp.body != bytes {
                    out.violate("serves-its-files", format!("{}/bytes-differ", r.kind), format!("{desc}: {} bytes served, {} bytes at start-up{}", resp.body.len(), bytes.len(), if mutated { " (the disk was changed after start-up)" } else { "" }));
                    return;
                }
                served += 1;
                out.probe("c19.file_served");
                if r.kind.starts_with("directory") {
                    out.probe("c19.index_at_directory_path");
                }
                if r.kind == "stripped-extension" {
                    out.probe("c19.omitted_extension");
                }
                if mutated {
                    out.probe("c19.mutation_before_request");
                }
            }
            None => {
                if key == "/hello" {
                    continue;
                }
                if resp.status != 404 {
                    out.violate("nothing-else", format!("{}/status-{}", r.kind, resp.status), format!("{desc}: not a route of the directory, yet answered {} with {} body bytes ({:?})", resp.status, resp.body.len(), String::from_utf8_lossy(&resp.body).chars().take(40).collect::<String>()));
                    return;
                }
                refused += 1;
                match r.kind.as_str() {
                    "dotdot" | "dotdot-inside" | "pct-dotdot" | "pct-slash" | "doubled-slash" => out.probe("c19.traversal_refused"),
                    "added-later" => out.probe("c19.added_later_refused"),
                    _ => {}
                }
                if r.path.contains("outside") {
                    out.probe("c19.outside_file_refused");
                }
            }
        }
    }
    out.nontrivial = served > 0 && refused > 0;
}
