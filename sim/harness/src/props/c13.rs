//! C13 — the BasicAuth fang admits exactly the configured credentials.

use super::PropInfo;
use crate::client::{Client, RecvErr, Resp, DEFAULT_TIMEOUT};
use crate::rt::{self, t, Outcome, RunCfg, Verdict};
use base64::engine::{general_purpose::STANDARD, general_purpose::STANDARD_NO_PAD, Engine as _};
use ohkami::fang::BasicAuth;
use ohkami::{Ohkami, Route};
use serde::{Deserialize, Serialize};
use simcore::ConnCfg;
use std::cell::RefCell;
use std::rc::Rc;

pub const INFO: PropInfo = PropInfo {
    quick_runs: 40_000,
    thorough_runs: 1_000_000,
    rule: "each run = one BasicAuth configuration (a single pair or an array of 1..5 pairs; Unicode, colons inside passwords, empty parts, pairs that are prefixes of each other; at the root, on a mount or local to a handler) \
           and 2..10 requests on a keep-alive connection with generated Authorization values (each correct one, user of pair i with password of pair j, prefix/suffix variants, other schemes, invalid base64, the right credentials with dropped / partial / surplus padding, base64 of non-UTF-8 bytes with the invalid byte first/middle/last, missing header); \
           non-trivial = at least one request admitted and one refused; distinct = distinct hash of (configuration, requests)",
    state_measure: "(credential kind, verdict) combinations",
    assumptions: &[
        "user names contain no colon (RFC 7617)",
        "another letter case of the scheme name (`basic`) is grey: checked only in the direction 'if the handler ran, the credentials are a configured pair'",
    ],
    expected_probes: &["c13.correct_admitted", "c13.mixed_pair_refused", "c13.non_utf8_last_byte", "c13.non_utf8_refused", "c13.missing_header_refused", "c13.colon_in_password", "c13.correct_then_missing_same_connection", "c13.array_config", "c13.padding_variant_refused", "c13.two_configurations", "c13.admitted_elsewhere_refused_here", "c13.other_method_with_credentials", "c13.other_method_challenged"],
};

#[derive(Clone, Debug, Serialize, Deserialize)]
pub struct Req {
    pub authorization: Option<Vec<u8>>,
    pub kind: String,
    /// 0: the route guarded by `pairs`; 1: the route guarded by `second` (if any)
    #[serde(default)]
    pub realm: u8,
    /// "" = GET; the protected handler is registered for GET only (HEAD reaches it too)
    #[serde(default)]
    pub method: String,
    /// an `Access-Control-Request-Method` header (a preflight-shaped request)
    #[serde(default)]
    pub acrm: Option<String>,
    /// (wave 14) just before this request, on the same connection, a request that carries a configured pair but is refused
    /// by the parser (a header value that is not UTF-8, behind the Authorization line): nothing of it may still be
    /// there when this request is judged
    #[serde(default)]
    pub after_refused: bool,
}
#[derive(Clone, Debug, Serialize, Deserialize)]
pub struct Scenario {
    pub pairs: Vec<(String, String)>,
    /// a single BasicAuth (only with one pair) instead of an array
    pub single: bool,
    pub placement: u8,
    pub reqs: Vec<Req>,
    /// a second, differently configured BasicAuth guarding `/private2` in the same application
    #[serde(default)]
    pub second: Option<(String, String)>,
}

fn gen_part(allow_colon: bool) -> String {
    if t::chance(1, 12) {
        // a long secret (longer than 255 characters)
        return t::string(b"abcdefgh0123456789", 256, 300);
    }
    match t::weighted(&[5, 1, 2, 1]) {
        0 => t::string(b"abcXYZ019", 1, 8),
        1 => String::new(),
        2 => format!("{}{}", t::string(b"ab", 0, 3), t::pick(&["é", "日本", "ü€", " sp ace", "%41", "\"q\"", "ñ", "café", "Ünï"])),
        _ => {
            if allow_colon {
                format!("{}:{}", t::string(b"ab", 0, 3), t::string(b"cd:", 0, 4))
            } else {
                t::string(b"abc", 1, 3)
            }
        }
    }
}

pub fn generate(_cfg: &RunCfg, _out: &mut Outcome) -> Scenario {
    let n = 1 + t::weighted(&[4, 3, 2, 1, 1]);
    let mut pairs: Vec<(String, String)> = Vec::new();
    for i in 0..n {
        let mut u = gen_part(false);
        let mut p = gen_part(true);
        if i > 0 && t::chance(1, 4) {
            // prefix of / same user as an earlier pair
            let (pu, pp) = t::pick(&pairs);
            match t::draw(3) {
                0 => u = pu.clone(),
                1 => u = format!("{pu}x"),
                _ => p = format!("{pp}y"),
            }
        }
        pairs.push((u, p));
    }
    let single = n == 1 && t::chance(1, 2);
    let nreq = t::range(2, 10) as usize;
    let mut reqs: Vec<Req> = Vec::new();
    for _ in 0..nreq {
        let (u, p) = t::pick(&pairs);
        let good = format!("{u}:{p}");
        let (kind, auth): (&str, Option<Vec<u8>>) = match t::weighted(&[6, 3, 2, 2, 2, 2, 3, 2]) {
            0 => ("correct", Some(format!("Basic {}", STANDARD.encode(&good)).into_bytes())),
            1 => {
                let (u2, _) = t::pick(&pairs);
                let (_, p2) = t::pick(&pairs);
                ("mixed-pair", Some(format!("Basic {}", STANDARD.encode(format!("{u2}:{p2}"))).into_bytes()))
            }
            2 => {
                let v = match t::draw(10) {
                    // extensions and truncations by lengths around the powers of two (length arithmetic in a narrow integer)
                    6 => format!("{good}{}", "x".repeat(t::pick(&[2usize, 255, 256, 257, 512]))),
                    7 => format!("{u}{}:{p}", "y".repeat(t::pick(&[255usize, 256, 257, 512]))),
                    8 => {
                        let keep = p.chars().count().saturating_sub(t::pick(&[256usize, 255, 1, 2])).max(0);
                        format!("{u}:{}", p.chars().take(keep).collect::<String>())
                    }
                    9 => {
                        let keep = u.chars().count().saturating_sub(t::pick(&[256usize, 1])).max(0);
                        format!("{}:{p}", u.chars().take(keep).collect::<String>())
                    }
                    0 => format!("{good}x"),
                    1 => {
                        let mut g = good.clone();
                        g.pop();
                        g
                    }
                    2 => format!("x{good}"),
                    3 => format!("{u}{p}"),
                    4 => format!("{u}:"),
                    _ => format!(":{p}"),
                };
                // cut at a char boundary
                let v: String = v.chars().collect();
                ("prefix-suffix-variant", Some(format!("Basic {}", STANDARD.encode(v)).into_bytes()))
            }
            3 => {
                let e = STANDARD.encode(&good);
                ("other-scheme", Some(t::pick(&[format!("Bearer {e}"), format!("basic {e}"), format!("Basic  {e}"), format!("Basic{e}"), e.clone(), format!("Digest {e}")]).into_bytes()))
            }
            4 => ("invalid-base64", Some(format!("Basic {}", t::pick(&["!!!!", "a", "ab=c", "YQ", "YWJj*", "====", ""])).into_bytes())),
            5 => {
                // the base64 of a string is ONE string: the same credentials with their padding dropped, halved or multiplied are another value
                let canon = STANDARD.encode(&good);
                let bare = STANDARD_NO_PAD.encode(&good);
                let v = match t::draw(4) {
                    0 => bare,
                    1 => format!("{bare}="),
                    2 => format!("{canon}{}", "=".repeat(1 + t::draw(4) as usize)),
                    _ => format!("{bare}{}", "=".repeat(t::draw(6) as usize)),
                };
                ("padding-variant", Some(format!("Basic {v}").into_bytes()))
            }
            6 if t::chance(1, 4) => {
                // the right credentials as one member of a list: the value is not `Basic <base64>`. In one line (strict), or
                // as two `Authorization` lines (grey: which line is "the" header is the server's choice — only the shape
                // of the answer is checked)
                let e = STANDARD.encode(&good);
                let other = t::pick(&["Bearer gateway-token", "Digest username=\"x\"", "Basic d3Jvbmc6d3Jvbmc=", "garbage", ""]);
                let first = t::chance(1, 2);
                if t::chance(2, 3) {
                    let v = if first { format!("Basic {e}, {other}") } else { format!("{other}, Basic {e}") };
                    ("list-with-the-pair", Some(v.into_bytes()))
                } else {
                    let v = if first { format!("Basic {e}\r\nAuthorization: {other}") } else { format!("{other}\r\nAuthorization: Basic {e}") };
                    ("two-lines-with-the-pair", Some(v.into_bytes()))
                }
            }
            6 if t::chance(1, 3) => {
                // user and password joined by something that is not a colon
                let (u, p) = t::pick(&pairs).clone();
                let sep = t::pick(&[";", " ", "|", "\u{0}", "X", "/", "="]);
                ("wrong-separator", Some(format!("Basic {}", STANDARD.encode(format!("{u}{sep}{p}"))).into_bytes()))
            }
            6 if good.chars().all(|c| (c as u32) <= 0xff) && good.chars().any(|c| (c as u32) >= 0x80) && t::chance(2, 3) => {
                // the configured pair in another charset (ISO-8859-1, one byte per character): not UTF-8, not the base64 of
                // `user:password` as configured
                let raw: Vec<u8> = good.chars().map(|c| c as u32 as u8).collect();
                ("latin1-of-the-pair", Some(format!("Basic {}", STANDARD.encode(&raw)).into_bytes()))
            }
            6 => {
                // base64 of bytes that are not UTF-8: invalid byte first / middle / last
                let mut raw = good.clone().into_bytes();
                let bad = t::pick(&[0xffu8, 0x80, 0xc3, 0xe4]);
                match t::draw(3) {
                    0 => raw.insert(0, bad),
                    1 => raw.insert(raw.len() / 2, bad),
                    _ => raw.push(bad),
                }
                ("non-utf8", Some(format!("Basic {}", STANDARD.encode(&raw)).into_bytes()))
            }
            _ => ("missing", None),
        };
        // keep the request head inside the supported subset (C02: heads below the 1 KiB buffer)
        let (kind, auth) = if auth.as_ref().map(|a| a.len() > 880).unwrap_or(false) { ("missing", None) } else { (kind, auth) };
        let (method, acrm) = if t::chance(1, 5) {
            match t::draw(7) {
                0 => ("POST", None),
                1 => ("PUT", None),
                2 => ("DELETE", None),
                3 => ("HEAD", None),
                4 => ("OPTIONS", None),
                5 => ("OPTIONS", Some(t::pick(&["GET", "PUT", "DELETE"]).to_string())),
                _ => ("GET", Some("GET".to_string())),
            }
        } else {
            ("", None)
        };
        reqs.push(Req { authorization: auth, kind: kind.to_string(), realm: 0, method: method.to_string(), acrm, after_refused: false });
    }
    // two configurations in one process: what one of them admitted must mean nothing to the other
    let second = if t::chance(1, 3) { Some((format!("two-{}", t::string(b"abc", 0, 4)), gen_part(true))) } else { None };
    if let Some((u2, p2)) = &second {
        let n0 = reqs.len();
        let mut out: Vec<Req> = Vec::new();
        for (i, r) in reqs.into_iter().enumerate() {
            let mut r = r;
            match t::weighted(&[3, 2, 2]) {
                0 => {}
                // the second realm's own credentials, at the second realm (admitted) ...
                1 => r = Req { authorization: Some(format!("Basic {}", STANDARD.encode(format!("{u2}:{p2}"))).into_bytes()), kind: "second-correct".into(), realm: 1, method: r.method.clone(), acrm: r.acrm.clone(), after_refused: false },
                // ... and whatever this request carried, presented to the second realm instead
                _ => r.realm = 1,
            }
            out.push(r.clone());
            // the byte-identical value again, right away, at the other realm
            if i + 1 < n0 + 4 && t::chance(1, 3) {
                out.push(Req { kind: format!("again-at-other-realm:{}", r.kind), realm: 1 - r.realm, ..r });
            }
        }
        reqs = out;
    }
    for r in reqs.iter_mut() {
        if r.realm == 0 && t::chance(1, 6) {
            r.after_refused = true;
        }
    }
    let placement = t::draw(3) as u8;
    for r in reqs.iter_mut() {
        // a fang of an application governs every request under it (C04), whatever the method; a handler-local fang
        // (placement 2, and the second realm) belongs to its GET handler only: other methods never reach it
        if placement == 2 || r.realm == 1 {
            r.method = String::new();
            r.acrm = None;
        }
    }
    Scenario { pairs, single, placement, reqs, second }
}

pub fn run(cfg: &RunCfg, direct: Option<&serde_json::Value>) -> Outcome {
    let mut out = Outcome::new();
    let sc: Scenario = match direct {
        Some(v) => match serde_json::from_value(v.clone()) {
            Ok(s) => s,
            Err(e) => {
                out.verdict = Verdict::Inconclusive(format!("cannot decode scenario: {e}"));
                return out;
            }
        },
        None => generate(cfg, &mut out),
    };
    rt::mark_generated();
    execute(&sc, &mut out);
    out
}

async fn secret() -> ohkami::Response {
    ohkami::Response::OK().with_text("secret").with_headers(|h| h.x("X-Secret", "1"))
}

macro_rules! app_with {
    ($fang:expr, $placement:expr) => {{
        let f = $fang;
        match $placement {
            0 => Ohkami::new((f, "/private".GET(secret))),
            1 => Ohkami::new(("/open".GET(|| async { "open" }), "/private".By(Ohkami::new((f, "/".GET(secret)))))),
            _ => Ohkami::new(("/open".GET(|| async { "open" }), "/private".GET((f, secret)))),
        }
    }};
}

fn build(sc: &Scenario) -> Ohkami {
    match &sc.second {
        None => build_first(sc),
        Some((u2, p2)) => {
            let second = BasicAuth { username: u2.clone(), password: p2.clone() };
            Ohkami::new(("/r1".By(build_first(sc)), "/private2".GET((second, secret))))
        }
    }
}

fn build_first(sc: &Scenario) -> Ohkami {
    let ba = |i: usize| BasicAuth { username: sc.pairs[i].0.clone(), password: sc.pairs[i].1.clone() };
    if sc.single {
        return app_with!(ba(0), sc.placement);
    }
    match sc.pairs.len() {
        1 => app_with!([ba(0)], sc.placement),
        2 => app_with!([ba(0), ba(1)], sc.placement),
        3 => app_with!([ba(0), ba(1), ba(2)], sc.placement),
        4 => app_with!([ba(0), ba(1), ba(2), ba(3)], sc.placement),
        _ => app_with!([ba(0), ba(1), ba(2), ba(3), ba(4)], sc.placement),
    }
}

/// the reference: `Basic ` + standard base64 (with padding) of UTF-8 `user:password`, split at the first colon
fn judge(pairs: &[(String, String)], auth: Option<&[u8]>) -> bool {
    let Some(a) = auth else { return false };
    let Some(rest) = a.strip_prefix(b"Basic ") else { return false };
    let Ok(raw) = STANDARD.decode(rest) else { return false };
    let Ok(s) = String::from_utf8(raw) else { return false };
    let Some((u, p)) = s.split_once(':') else { return false };
    pairs.iter().any(|(cu, cp)| cu == u && cp == p)
}

fn execute(sc: &Scenario, out: &mut Outcome) {
    out.scenario = serde_json::to_value(sc).unwrap_or(serde_json::Value::Null);
    out.scenario_hash = rt::fnv64(serde_json::to_string(sc).unwrap_or_default().as_bytes());
    if !sc.single {
        out.probe("c13.array_config");
    }
    rt::serve(build(sc));
    let obs: Rc<RefCell<Vec<Result<Resp, RecvErr>>>> = Rc::new(RefCell::new(Vec::new()));
    let o = obs.clone();
    let reqs = sc.reqs.clone();
    let pairs0 = sc.pairs.clone();
    let two_realms = sc.second.is_some();
    if two_realms {
        out.probe("c13.two_configurations");
    }
    simcore::spawn_task("client", "client", async move {
        let mut c: Option<Client> = None;
        for r in &reqs {
            if c.is_none() {
                match Client::connect(rt::ADDR, ConnCfg::default()).await {
                    Ok(x) => c = Some(x),
                    Err(_) => return,
                }
            }
            if r.after_refused {
                let cl = c.as_mut().unwrap();
                let (u, pw) = &pairs0[0];
                let path = if two_realms { "/r1/private" } else { "/private" };
                let mut bytes = format!("GET {path} HTTP/1.1\r\nHost: s\r\nAuthorization: Basic {}\r\nX-Client-Name: caf", STANDARD.encode(format!("{u}:{pw}"))).into_bytes();
                bytes.extend_from_slice(b"\xe9\r\n\r\n");
                if bytes.len() < 1000 {
                    cl.send(&bytes, 0);
                    simcore::with(|w| w.count("c13.refused_request_with_a_pair_first"));
                    if cl.recv(false, DEFAULT_TIMEOUT).await.is_err() {
                        c = None;
                    }
                }
                if c.is_none() {
                    match Client::connect(rt::ADDR, ConnCfg::default()).await {
                        Ok(x) => c = Some(x),
                        Err(_) => return,
                    }
                }
            }
            let cl = c.as_mut().unwrap();
            let path = match (two_realms, r.realm) {
                (false, _) => "/private",
                (true, 0) => "/r1/private",
                (true, _) => "/private2",
            };
            let method = if r.method.is_empty() { "GET" } else { r.method.as_str() };
            let mut bytes = format!("{method} {path} HTTP/1.1\r\nHost: s\r\n").into_bytes();
            if let Some(m) = &r.acrm {
                bytes.extend_from_slice(format!("Access-Control-Request-Method: {m}\r\n").as_bytes());
            }
            if let Some(a) = &r.authorization {
                bytes.extend_from_slice(b"Authorization: ");
                bytes.extend_from_slice(a);
                bytes.extend_from_slice(b"\r\n");
            }
            bytes.extend_from_slice(b"\r\n");
            cl.send(&bytes, 0);
            let resp = cl.recv(method == "HEAD", DEFAULT_TIMEOUT).await;
            let ok = resp.is_ok();
            o.borrow_mut().push(resp);
            if !ok {
                c = None;
            }
        }
        if let Some(mut old) = c.take() {
            old.send_fin(0);
            let _ = old.drain_until_close(DEFAULT_TIMEOUT).await;
        }
    });
    let end = simcore::run();
    let panics = rt::panicked_tasks();
    if let Some((_, _, file, _, msg)) = panics.first() {
        out.violate("no-panic", rt::panic_site(file, msg), format!("a server task panicked at {file}: {msg}; pairs {:?}; requests {:?}", sc.pairs, sc.reqs.iter().map(|r| (r.kind.clone(), r.authorization.as_ref().map(|a| String::from_utf8_lossy(a).into_owned()))).collect::<Vec<_>>()));
        return;
    }
    if matches!(end, simcore::EndReason::StepCap | simcore::EndReason::TimeCap) {
        out.verdict = Verdict::Inconclusive(format!("{end:?}"));
        return;
    }
    let obs = obs.borrow();
    let (mut admitted, mut refused) = (0, 0);
    let mut prev_admitted = false;
    for (k, r) in sc.reqs.iter().enumerate() {
        let Some(resp) = obs.get(k) else { break };
        let desc = format!("request {k} ({} {:?}; {}; realm {}; Authorization {:?}; pairs {:?}; second {:?})", if r.method.is_empty() { "GET" } else { &r.method }, r.acrm, r.kind, r.realm, r.authorization.as_ref().map(|a| String::from_utf8_lossy(a).into_owned()), sc.pairs, sc.second);
        let resp = match resp {
            Ok(x) => x,
            Err(e) => {
                out.violate("answered", format!("{}/no-response", r.kind), format!("{desc}: {}", format!("{e:?}").chars().take(100).collect::<String>()));
                return;
            }
        };
        let ran = resp.header("X-Secret").is_some();
        // the pairs configured for the realm this request went to
        let second_pairs: Vec<(String, String)> = sc.second.iter().cloned().collect();
        let realm_pairs: &Vec<(String, String)> = if sc.second.is_some() && r.realm == 1 { &second_pairs } else { &sc.pairs };
        let should = judge(realm_pairs, r.authorization.as_deref());
        if r.kind.starts_with("again-at-other-realm:") && !should {
            out.probe("c13.admitted_elsewhere_refused_here");
        }
        out.states.push(format!("{}|{}", r.kind, if should { "admit" } else { "refuse" }));
        let grey = (r.kind == "other-scheme" && r.authorization.as_deref().map(|a| a.to_ascii_lowercase().starts_with(b"basic ")).unwrap_or(false)) || r.kind == "two-lines-with-the-pair";
        if r.kind == "list-with-the-pair" {
            out.probe("c13.pair_inside_a_list_value");
        }
        if r.kind == "padding-variant" && !should {
            out.probe("c13.padding_variant_refused");
        }
        match (should, ran) {
            (true, true) => {
                admitted += 1;
                out.probe("c13.correct_admitted");
                if sc.pairs.iter().any(|(_, p)| p.contains(':')) {
                    out.probe("c13.colon_in_password");
                }
                prev_admitted = true;
                continue;
            }
            (true, false) if !matches!(r.method.as_str(), "" | "GET" | "HEAD") => {
                // no handler is registered for this method: passing the fang shows as "not challenged"
                out.probe("c13.other_method_with_credentials");
                if resp.status == 401 || resp.header("WWW-Authenticate").is_some() {
                    out.violate("configured-pair-admitted", format!("{}/{}/status-{}", r.kind, r.method, resp.status), format!("{desc}: {} with a configured pair was challenged ({})", r.method, resp.status));
                    return;
                }
                continue;
            }
            (true, false) => {
                out.violate("configured-pair-admitted", format!("{}/status-{}", r.kind, resp.status), format!("{desc}: a configured pair was refused with {}", resp.status));
                return;
            }
            (false, true) => {
                if r.kind == "two-lines-with-the-pair" {
                    // admitted on the strength of one of the two lines: that line alone must be admissible here
                    let text = String::from_utf8_lossy(r.authorization.as_deref().unwrap_or_default()).into_owned();
                    if text.split("\r\nAuthorization: ").any(|line| judge(realm_pairs, Some(line.as_bytes()))) {
                        out.probe("c13.two_authorization_lines_admitted");
                        continue;
                    }
                } else if grey {
                    // the spelling is grey, but the credentials themselves must still be a configured pair
                    let inner_ok = r
                        .authorization
                        .as_deref()
                        .and_then(|a| a.splitn(2, |b| *b == b' ').nth(1).map(|x| x.to_vec()))
                        .and_then(|b| STANDARD_NO_PAD.decode(b.iter().copied().filter(|c| *c != b'=' && *c != b' ').collect::<Vec<u8>>()).ok())
                        .and_then(|raw| String::from_utf8(raw).ok())
                        .and_then(|s| s.split_once(':').map(|(u, p)| realm_pairs.iter().any(|(cu, cp)| cu == u && cp == p)))
                        .unwrap_or(false);
                    if inner_ok {
                        continue;
                    }
                }
                out.violate("others-refused", r.kind.clone(), format!("{desc}: must be refused but the handler ran"));
                return;
            }
            (false, false) => {
                // a head beyond the 1 KiB buffer is refused by the request parser before any fang runs (C02: outside the supported subset)
                let head_len = 33 + r.authorization.as_ref().map(|a| a.len() + 17).unwrap_or(0) + 2;
                if head_len >= 1024 && resp.status >= 400 {
                    continue;
                }
                if resp.status != 401 {
                    out.violate("others-refused", format!("{}/status-{}", r.kind, resp.status), format!("{desc}: refused with {} instead of 401", resp.status));
                    return;
                }
                if !resp.header("WWW-Authenticate").map(|v| v.starts_with("Basic")).unwrap_or(false) {
                    out.violate("others-refused", format!("{}/no-challenge", r.kind), format!("{desc}: 401 without a `WWW-Authenticate: Basic` challenge ({:?})", resp.header("WWW-Authenticate")));
                    return;
                }
                refused += 1;
                if !matches!(r.method.as_str(), "" | "GET") {
                    out.probe("c13.other_method_challenged");
                }
                match r.kind.as_str() {
                    "mixed-pair" => out.probe("c13.mixed_pair_refused"),
                    "non-utf8" => {
                        out.probe("c13.non_utf8_refused");
                        // was the invalid byte the last one?
                        if let Some(a) = &r.authorization {
                            if let Ok(raw) = STANDARD.decode(&a[6..]) {
                                if let Err(e) = String::from_utf8(raw.clone()) {
                                    if e.utf8_error().valid_up_to() + 1 == raw.len() {
                                        out.probe("c13.non_utf8_last_byte");
                                    }
                                }
                            }
                        }
                    }
                    "missing" => {
                        out.probe("c13.missing_header_refused");
                        if prev_admitted {
                            out.probe("c13.correct_then_missing_same_connection");
                        }
                    }
                    _ => {}
                }
                prev_admitted = false;
            }
        }
    }
    out.nontrivial = admitted > 0 && refused > 0;
}
