//! C04 — fangs run in onion order and exactly within their application's scope.

use super::c01::{self, Gen};
use super::PropInfo;
use crate::appgen::{self, AppSpec, FangKind, FangSpec};
use crate::client::{Client, RecvErr, Resp, DEFAULT_TIMEOUT};
use crate::rt::{self, t, Outcome, RunCfg, Verdict};
use serde::{Deserialize, Serialize};
use simcore::ConnCfg;
use std::cell::RefCell;
use std::rc::Rc;

pub const INFO: PropInfo = PropInfo {
    quick_runs: 40_000,
    thorough_runs: 2_000_000,
    rule: "each run = one generated application tree (0..8 traced fangs per application — hand-written Fang/FangProc and FangAction kinds, some yielding/sleeping —, 0..4 local fangs per handler, nested mounts with static and param prefixes) \
           and 4..24 requests (hits, misses inside and outside each mount, every method, a Stop request aimed at some fang) on 1..3 concurrent keep-alive connections; \
           non-trivial = at least one response carried a non-empty trace; distinct = distinct hash of (application, requests)",
    state_measure: "(number of applications on the chain, fang count bucket, outcome kind: handler / 404 / stopped) combinations",
    assumptions: &[
        "every mount prefix is used by exactly one application and no other application registers routes under it (the property's side condition; the generator enforces it)",
        "requests whose routing outcome is ambiguous under C01's two readings are not judged here",
        "when the innermost participant on a 404 is a FangAction (which cannot see the request on the way out) only the outbound trace is compared",
    ],
    expected_probes: &["c04.handler_with_local_fangs", "c04.miss_inside_mount", "c04.miss_outside_mounts", "c04.stopped", "c04.three_apps_on_chain", "c04.yielding_fang_ran", "c04.single_child_mount", "c04.fang_only_mounted_app", "c04.request_under_a_mount_prefix_with_fang_only_app", "c04.another_application_lived_earlier", "c04.another_thread_builds_applications_meanwhile"],
};

#[derive(Clone, Debug, Serialize, Deserialize)]
pub struct Req {
    pub method: String,
    pub path: String,
    pub kind: String,
    pub stop: Option<u32>,
}
#[derive(Clone, Debug, Serialize, Deserialize)]
pub struct Scenario {
    pub app: AppSpec,
    pub conns: Vec<Vec<Req>>,
    /// another application lived (and was dropped) earlier in the same process and on the same thread: the same routes,
    /// other fangs and handlers (every id + 1000), asked for the same paths through the in-process testing API.
    /// Whatever routing remembers across requests must not outlive the application it belongs to.
    #[serde(default)]
    pub previous: bool,
    /// a second OS thread builds other applications WHILE this one is built (one Ohkami per executor thread, parallel
    /// tests): the two threads interleave at every access to the shared application-id counter (hook K6)
    #[serde(default)]
    pub parallel_builder: bool,
}

fn shifted(app: &AppSpec, by: u32) -> AppSpec {
    let fs = |f: &appgen::FangSpec| appgen::FangSpec { id: f.id + by, ..f.clone() };
    AppSpec {
        id: app.id + by,
        fangs: app.fangs.iter().map(fs).collect(),
        items: app
            .items
            .iter()
            .map(|it| match it {
                appgen::Item::Routes { path, methods } => appgen::Item::Routes {
                    path: path.clone(),
                    methods: methods.iter().map(|(m, h)| (m.clone(), appgen::HandlerSpec { id: h.id + by, n_params: h.n_params, local_fangs: h.local_fangs.iter().map(fs).collect() })).collect(),
                },
                appgen::Item::Mount { prefix, app } => appgen::Item::Mount { prefix: prefix.clone(), app: shifted(app, by) },
            })
            .collect(),
    }
}

fn all_fangs(app: &AppSpec, out: &mut Vec<u32>) {
    out.extend(app.fangs.iter().map(|f| f.id));
    for it in &app.items {
        match it {
            appgen::Item::Routes { methods, .. } => {
                for h in methods.values() {
                    out.extend(h.local_fangs.iter().map(|f| f.id));
                }
            }
            appgen::Item::Mount { app, .. } => all_fangs(app, out),
        }
    }
}

pub fn generate(_cfg: &RunCfg, _out: &mut Outcome) -> Scenario {
    let mut g = Gen { next_handler: 0, next_app: 0, next_fang: 0 };
    let app = c01::gen_app(&mut g, 0, 0, true);
    let table = appgen::table(&app);
    let mut fang_ids = Vec::new();
    all_fangs(&app, &mut fang_ids);
    let n_conns = 1 + t::weighted(&[5, 3, 2]);
    let conns = (0..n_conns)
        .map(|_| {
            c01::gen_requests(&table, 2 + t::draw(8) as usize)
                .into_iter()
                .map(|r| Req { method: r.method, path: r.path, kind: r.kind, stop: if !fang_ids.is_empty() && t::chance(1, 5) { Some(t::pick(&fang_ids)) } else { None } })
                .collect()
        })
        .collect();
    Scenario { app, conns, previous: t::chance(1, 4), parallel_builder: t::chance(1, 4) }
}

pub fn run(cfg: &RunCfg, direct: Option<&serde_json::Value>) -> Outcome {
    let mut out = Outcome::new();
    let sc: Scenario = match direct {
        Some(v) => match serde_json::from_value(v.clone()) {
            Ok(s) => s,
            Err(e) => {
                out.verdict = Verdict::Inconclusive(format!("cannot decode scenario: {e}"));
                return out;
            }
        },
        None => generate(cfg, &mut out),
    };
    rt::mark_generated();
    execute(&sc, &mut out);
    out
}

fn parse_list(s: &str) -> Vec<u32> {
    s.trim_matches(|c| c == '[' || c == ']').split(',').filter_map(|x| x.trim().parse().ok()).collect()
}

/// shape hazards: a mount whose node is the only child of a handler-less parent node (the router merges such chains)
fn single_child_mount(app: &AppSpec) -> bool {
    fn firsts(app: &AppSpec) -> Vec<String> {
        app.items
            .iter()
            .map(|it| match it {
                appgen::Item::Routes { path, .. } => path.split('/').nth(1).unwrap_or("").to_string(),
                appgen::Item::Mount { prefix, .. } => prefix.split('/').nth(1).unwrap_or("").to_string(),
            })
            .collect()
    }
    let f = firsts(app);
    let mounts: Vec<&AppSpec> = app.items.iter().filter_map(|it| if let appgen::Item::Mount { app, .. } = it { Some(app) } else { None }).collect();
    let mut distinct = f.clone();
    distinct.sort();
    distinct.dedup();
    (!mounts.is_empty() && distinct.len() == 1) || mounts.iter().any(|m| single_child_mount(m))
}

fn execute(sc: &Scenario, out: &mut Outcome) {
    out.scenario = serde_json::to_value(sc).unwrap_or(serde_json::Value::Null);
    out.scenario_hash = rt::fnv64(serde_json::to_string(sc).unwrap_or_default().as_bytes());
    let table = appgen::table(&sc.app);
    if single_child_mount(&sc.app) {
        out.hazard("mount-is-single-child");
        out.probe("c04.single_child_mount");
    }
    {
        // mounted applications that consist of fangs only (no route anywhere inside)
        fn has_route(a: &AppSpec) -> bool {
            a.items.iter().any(|it| match it {
                appgen::Item::Routes { .. } => true,
                appgen::Item::Mount { app, .. } => has_route(app),
            })
        }
        fn walk(a: &AppSpec, root: bool, found: &mut bool) {
            if !root && !a.fangs.is_empty() && !has_route(a) {
                *found = true;
            }
            for it in &a.items {
                if let appgen::Item::Mount { app, .. } = it {
                    walk(app, false, found);
                }
            }
        }
        let mut found = false;
        walk(&sc.app, true, &mut found);
        if found {
            out.probe("c04.fang_only_mounted_app");
            if sc.conns.iter().flatten().any(|r| r.kind == "under-mount-prefix") {
                out.probe("c04.request_under_a_mount_prefix_with_fang_only_app");
            }
        }
    }
    if sc.previous {
        out.probe("c04.another_application_lived_earlier");
        let prev = std::panic::catch_unwind(std::panic::AssertUnwindSafe(|| appgen::build(&shifted(&sc.app, 1000))));
        if let Ok(prev) = prev {
            use ohkami::testing::{TestRequest, Testing};
            let asked: Vec<(String, String)> = sc.conns.iter().flatten().map(|r| (r.method.clone(), r.path.clone())).collect();
            simcore::spawn_task("previous-app", "client", async move {
                let tester = prev.test();
                for (m, p) in asked {
                    let req = match m.as_str() {
                        "GET" => TestRequest::GET(p.clone()),
                        "PUT" => TestRequest::PUT(p.clone()),
                        "POST" => TestRequest::POST(p.clone()),
                        "PATCH" => TestRequest::PATCH(p.clone()),
                        "DELETE" => TestRequest::DELETE(p.clone()),
                        "HEAD" => TestRequest::HEAD(p.clone()),
                        _ => TestRequest::OPTIONS(p.clone()),
                    };
                    let _ = tester.oneshot(req).await;
                }
                drop(tester);
            });
            let _ = simcore::run();
        }
    }
    if sc.parallel_builder {
        out.probe("c04.another_thread_builds_applications_meanwhile");
        // the second thread: simcore's hand-off thread (the one that otherwise runs the Ctrl-C closure), parked at every
        // instrumented access; it builds and drops three copies of the application with other ids
        let other = shifted(&sc.app, 2000);
        simcore::signal::reset();
        let _ = simcore::signal::set_handler(Box::new(move || {
            for _ in 0..3 {
                let a = std::panic::catch_unwind(std::panic::AssertUnwindSafe(|| appgen::build(&other)));
                drop(a);
            }
        }));
        simcore::signal::deliver();
        crate::rt::SCHED_CB.with(|c| {
            *c.borrow_mut() = Some(Box::new(|name: &'static str| {
                if name.starts_with("atomic:") {
                    // this thread is about to touch the counter: how far does the other one get first?
                    for _ in 0..t::weighted(&[3, 3, 2, 1, 1]) {
                        if !simcore::signal::can_step() {
                            break;
                        }
                        let _ = simcore::signal::step();
                        simcore::with(|w| w.count("fault.other_thread_stepped_at_atomic_access"));
                    }
                }
            }));
        });
    }
    let built = std::panic::catch_unwind(std::panic::AssertUnwindSafe(|| appgen::build(&sc.app)));
    if sc.parallel_builder {
        crate::rt::SCHED_CB.with(|c| *c.borrow_mut() = None);
        let mut guard = 0;
        while simcore::signal::can_step() && guard < 10_000 {
            let _ = simcore::signal::step();
            guard += 1;
        }
        simcore::signal::clear();
    }
    let o1 = match built {
        Ok(x) => x,
        Err(_) => {
            let info = simcore::LAST_PANIC.with(|p| p.borrow_mut().take());
            out.violate("registration", "panic", format!("building the application panicked: {:?}", info.map(|i| i.message)));
            return;
        }
    };
    rt::serve(o1);
    type Obs = Rc<RefCell<Vec<Vec<Result<Resp, RecvErr>>>>>;
    let obs: Obs = Rc::new(RefCell::new(sc.conns.iter().map(|_| Vec::new()).collect()));
    for (ci, reqs) in sc.conns.iter().enumerate() {
        let o = obs.clone();
        let reqs = reqs.clone();
        simcore::spawn_task(format!("client{ci}"), "client", async move {
            let Ok(mut c) = Client::connect(rt::ADDR, ConnCfg::default()).await else { return };
            for r in &reqs {
                let stop = r.stop.map(|s| format!("x-stop: {s}\r\n")).unwrap_or_default();
                let bytes = format!("{} {} HTTP/1.1\r\nHost: sim\r\n{stop}\r\n", r.method, r.path);
                c.send(bytes.as_bytes(), 0);
                let resp = c.recv(r.method == "HEAD", DEFAULT_TIMEOUT).await;
                let ok = resp.is_ok();
                o.borrow_mut()[ci].push(resp);
                if !ok {
                    return;
                }
            }
            c.send_fin(0);
            let _ = c.drain_until_close(DEFAULT_TIMEOUT).await;
        });
    }
    let end = simcore::run();

    let panics = rt::panicked_tasks();
    if let Some((_, _, file, _, msg)) = panics.first() {
        out.violate("no-panic", rt::panic_site(file, msg), format!("a server task panicked at {file}: {msg}"));
        return;
    }
    if matches!(end, simcore::EndReason::StepCap | simcore::EndReason::TimeCap) {
        out.verdict = Verdict::Inconclusive(format!("{end:?}"));
        return;
    }
    let obs = obs.borrow();
    for (ci, reqs) in sc.conns.iter().enumerate() {
        for (k, rq) in reqs.iter().enumerate() {
            let desc = format!("{} {} ({}, stop={:?})", rq.method, rq.path, rq.kind, rq.stop);
            let resp = match obs[ci].get(k) {
                Some(Ok(r)) => r,
                Some(Err(e)) => {
                    out.violate("onion", "no-response", format!("{desc}: {}", format!("{e:?}").chars().take(100).collect::<String>()));
                    return;
                }
                None => break,
            };
            let (alts, ambiguous) = c01::expectations(&table, &rq.method, &rq.path);
            if ambiguous {
                continue;
            }
            let segs = appgen::path_segments(&rq.path);
            let chain = appgen::app_chain(&table, &segs);
            let mut expected: Vec<&FangSpec> = chain.iter().flat_map(|a| a.fangs.iter()).collect();
            let handler = alts[0].as_ref().map(|(id, _)| *id);
            let hspec = handler.and_then(|id| table.routes.iter().flat_map(|r| r.methods.values()).find(|h| h.id == id));
            if let Some(h) = hspec {
                expected.extend(h.local_fangs.iter());
                // sanity of the model itself: the matched route must have been registered by the innermost application on the chain
                let route = table.routes.iter().find(|r| r.methods.values().any(|x| x.id == h.id)).unwrap();
                if route.apps.last() != chain.last().map(|c| &c.app) {
                    continue; // outside the side condition (should not be generated)
                }
            }
            let mut stopped_at: Option<usize> = None;
            if let Some(s) = rq.stop {
                stopped_at = expected.iter().position(|f| f.id == s);
            }
            let exp_in: Vec<u32> = match stopped_at {
                Some(p) => expected[..=p].iter().map(|f| f.id).collect(),
                None => expected.iter().map(|f| f.id).collect(),
            };
            let exp_out: Vec<u32> = exp_in.iter().rev().copied().collect();
            let got_out: Vec<u32> = resp.header("X-Out").map(parse_list).unwrap_or_default();
            let got_in: Option<Vec<u32>> = resp.header("X-In").map(parse_list);
            let got_handler: Option<u32> = resp.header("X-Handler").and_then(|h| h.parse().ok());
            let apps_desc: Vec<String> = table.apps.iter().map(|a| format!("app{} prefix {:?} fangs {:?}", a.app, a.prefix, a.fangs.iter().map(|f| f.id).collect::<Vec<_>>())).collect();
            let ctx = format!("{desc}: chain {:?}; {apps_desc:?}", chain.iter().map(|c| c.app).collect::<Vec<_>>());
            let shape = if stopped_at.is_some() { "stopped" } else if handler.is_some() { "handler" } else { "miss" };
            out.states.push(format!("chain{}|fangs{}|{}", chain.len().min(4), exp_in.len().min(9), shape));
            // outcome kind
            match (stopped_at, handler) {
                (Some(_), _) => {
                    if got_handler.is_some() || resp.status != 418 {
                        out.violate("early-answer-stops-inner", shape, format!("{ctx}: fang {} answered early but status {} handler {:?}", rq.stop.unwrap(), resp.status, got_handler));
                        return;
                    }
                    out.probe("c04.stopped");
                }
                (None, Some(h)) => {
                    if got_handler != Some(h) {
                        out.violate("onion", "handler-differs", format!("{ctx}: expected handler {h}, observed {got_handler:?} status {}", resp.status));
                        return;
                    }
                    if hspec.map(|h| !h.local_fangs.is_empty()).unwrap_or(false) {
                        out.probe("c04.handler_with_local_fangs");
                    }
                }
                (None, None) => {
                    if got_handler.is_some() {
                        out.violate("onion", "handler-ran-on-miss", format!("{ctx}: handler {got_handler:?} ran"));
                        return;
                    }
                    if chain.len() > 1 {
                        out.probe("c04.miss_inside_mount");
                    } else {
                        out.probe("c04.miss_outside_mounts");
                    }
                }
            }
            if chain.len() >= 3 {
                out.probe("c04.three_apps_on_chain");
            }
            if expected.iter().any(|f| f.yields) {
                out.probe("c04.yielding_fang_ran");
            }
            if !exp_in.is_empty() {
                out.nontrivial = true;
            }
            // outbound trace: always observable
            if got_out != exp_out {
                let what = if got_out.iter().any(|g| !exp_out.contains(g)) {
                    "foreign-fang-ran"
                } else if exp_out.iter().any(|e| !got_out.contains(e)) {
                    "fang-missing"
                } else {
                    "order"
                };
                out.violate("onion", format!("{shape}/outbound-{what}"), format!("{ctx}: outbound trace expected {exp_out:?} observed {got_out:?} (inbound observed {got_in:?})"));
                return;
            }
            // inbound trace: observable unless the innermost participant is a FangAction on a miss
            match got_in {
                Some(gi) => {
                    if gi != exp_in {
                        out.violate("onion", format!("{shape}/inbound-order"), format!("{ctx}: inbound trace expected {exp_in:?} observed {gi:?}"));
                        return;
                    }
                }
                None => {
                    let innermost_is_action = expected.last().map(|f| f.kind == FangKind::Action).unwrap_or(true);
                    if !(handler.is_none() && stopped_at.is_none() && innermost_is_action) {
                        out.violate("onion", format!("{shape}/inbound-unrecorded"), format!("{ctx}: nobody recorded the inbound trace although {:?} should have", expected.last().map(|f| f.id)));
                        return;
                    }
                }
            }
        }
    }
}
