//! C06 — responses depend on the byte stream, not on how TCP segmented it.
//! The same request sequence is delivered several times in one world, each time on a fresh
//! connection under a different tape-chosen delivery; every delivery must yield the baseline's responses.

use super::PropInfo;
use crate::client::{Client, RecvErr, Resp, DEFAULT_TIMEOUT};
use crate::rt::{self, t, Outcome, RunCfg, Verdict};
use crate::sess::{self, ReqItem, SeqOpts};
use serde::{Deserialize, Serialize};
use simcore::{sleep, ConnCfg, MS};
use std::cell::RefCell;
use std::rc::Rc;

pub const INFO: PropInfo = PropInfo {
    quick_runs: 40_000,
    thorough_runs: 1_500_000,
    rule: "each run = one generated request sequence (1..6 well-formed requests, sometimes followed by one malformed request) delivered on a baseline connection (one segment per request, after the previous response) and on 1..3 further connections under tape-chosen deliveries \
           (cuts anywhere in head/body, coalescing of consecutive requests, pipelining, delays 0..seconds, short reads); non-trivial = at least one non-baseline delivery produced a complete response; \
           distinct = distinct hash of (requests, deliveries)",
    state_measure: "(delivery family, cut-position classes, short reads) combinations reached",
    assumptions: &["request heads stay below 1 KiB (longer heads are outside the supported subset, see C02)", "requests are well-formed (class W of C02); the last one may carry Connection: close, or be a complete malformed head (which has no defined extent, so nothing may follow it): it must be refused exactly once under every delivery"],
    expected_probes: &["c06.cut_in_request_line", "c06.cut_in_header", "c06.cut_at_blank_line", "c06.cut_in_body", "c06.two_requests_one_segment", "c06.short_read_fired", "c06.body_over_buffer_split", "c06.malformed_last_request", "c06.grey_last_request"],
};

#[derive(Clone, Debug, Serialize, Deserialize)]
pub struct Delivery {
    /// "stepwise": request k+1 is sent after response k; "pipelined": the whole stream is sent without waiting
    pub family: String,
    /// cut offsets into the concatenated byte stream (sorted, unique, inside 1..len)
    pub cuts: Vec<usize>,
    /// delay (ms) between consecutive segments; index i = delay before segment i+1
    pub gaps_ms: Vec<u64>,
    pub short_reads: bool,
}
#[derive(Clone, Debug, Serialize, Deserialize)]
pub struct Scenario {
    pub reqs: Vec<ReqItem>,
    pub deliveries: Vec<Delivery>,
}

/// request boundaries in the concatenated stream: (start, head_end, end)
fn layout(reqs: &[ReqItem]) -> Vec<(usize, usize, usize)> {
    let mut v = Vec::new();
    let mut at = 0;
    for r in reqs {
        let b = r.bytes();
        let hl = if r.malformed.is_some() { b.len() } else { r.spec.head_bytes().len() };
        v.push((at, at + hl, at + b.len()));
        at += b.len();
    }
    v
}

pub fn hazards_of(reqs: &[ReqItem], d: &Delivery) -> Vec<&'static str> {
    let lay = layout(reqs);
    let mut hz = Vec::new();
    let head_split = d.cuts.iter().any(|c| lay.iter().any(|(s, he, _)| c > s && c < he));
    if head_split || d.short_reads {
        hz.push("head-split");
    }
    if d.family == "pipelined" && reqs.len() > 1 {
        hz.push("pipelined");
    }
    hz
}

fn gen_delivery(reqs: &[ReqItem], cfg: &RunCfg, out: &mut Outcome) -> Delivery {
    let lay = layout(reqs);
    let total = lay.last().map(|l| l.2).unwrap_or(0);
    for _attempt in 0..6 {
        let mut family = if reqs.len() > 1 && t::chance(1, 2) { "pipelined" } else { "stepwise" };
        if cfg.entering("pipelined") && reqs.len() > 1 {
            family = "pipelined";
        }
        let mut cuts: Vec<usize> = Vec::new();
        let n_cuts = t::weighted(&[2, 4, 3, 2, 1]);
        for _ in 0..n_cuts {
            let (s, he, e) = t::pick(&lay);
            let c = match t::weighted(&[3, 2, 2, 2, 2, 2]) {
                0 => s + 1 + t::draw((e - s).max(2) as u32 - 1) as usize,   // anywhere in this request
                1 => s + 1 + t::draw(14.min((he - s) as u32 - 1)) as usize, // inside the request line
                2 => he - 1 - t::draw(4) as usize,                          // around the blank line
                3 => he,                                                    // exactly between head and body
                4 => if e > he { he + 1 + t::draw((e - he) as u32) as usize } else { he - 2 }, // inside the body
                _ => e,                                                     // exactly at the request boundary
            };
            if c >= 1 && c < total {
                cuts.push(c);
            }
        }
        if cfg.entering("head-split") {
            let (s, he, _) = t::pick(&lay);
            cuts.push((s + 1 + t::draw((he - s - 1) as u32) as usize).min(total - 1).max(1));
        }
        if family == "stepwise" {
            // a stepwise delivery never puts two requests into one segment: cut at every boundary
            for (_, _, e) in &lay {
                if *e < total {
                    cuts.push(*e);
                }
            }
        } else if t::chance(1, 2) {
            for (_, _, e) in &lay {
                if *e < total && t::chance(1, 2) {
                    cuts.push(*e);
                }
            }
        }
        cuts.sort();
        cuts.dedup();
        let gaps_ms: Vec<u64> = (0..cuts.len()).map(|_| t::pick(&[0u64, 0, 1, 1, 5, 200, 3000])).collect();
        let short_reads = t::chance(1, 5);
        let d = Delivery { family: family.to_string(), cuts, gaps_ms, short_reads };
        let hz = hazards_of(reqs, &d);
        if let Some(h) = hz.iter().find(|h| cfg.avoid(h)) {
            *out.redraws.entry(h.to_string()).or_insert(0) += 1;
            continue;
        }
        return d;
    }
    // could not avoid the guarded hazards: fall back to the harmless delivery
    let cuts: Vec<usize> = lay.iter().map(|l| l.2).filter(|e| *e < total).collect();
    Delivery { family: "stepwise".into(), gaps_ms: vec![0; cuts.len()], cuts, short_reads: false }
}

pub fn generate(cfg: &RunCfg, out: &mut Outcome) -> Scenario {
    let reqs = sess::gen_sequence(0, &SeqOpts { min: 1, max: 6, allow_malformed: false, allow_close: true, max_body: 2600, allow_delay: true, shapes: true });
    // Connection: close only makes sense on the last request of a pipelined stream
    let mut reqs = reqs;
    if let Some(pos) = reqs.iter().position(|r| r.wants_close()) {
        reqs.truncate(pos + 1);
    }
    // a malformed request has no defined extent, so only the LAST one of a stream may be malformed: everything before it
    // must be served and it must be refused exactly once, however the bytes are cut
    if !reqs.iter().any(|r| r.wants_close()) && t::chance(1, 5) {
        let mut last = sess::gen_sequence(9, &SeqOpts { min: 1, max: 1, allow_malformed: false, allow_close: false, max_body: 0, allow_delay: false, shapes: false }).remove(0);
        last.malformed = sess::malform(&last.spec);
        if last.malformed.is_some() {
            reqs.push(last);
        }
    }
    // (wave 14) empty lines in front of a request line: RFC 9112 2.2 lets a server skip them, the tree refuses them by closing —
    // either is fine (no reference value, kind `grey-…`), but whichever it is must not depend on where the bytes are cut
    if !reqs.iter().any(|r| r.wants_close() || r.malformed.is_some()) && t::chance(1, 6) {
        let mut last = sess::gen_sequence(9, &SeqOpts { min: 1, max: 1, allow_malformed: false, allow_close: false, max_body: 0, allow_delay: false, shapes: false }).remove(0);
        let mut s2 = last.spec.clone();
        s2.body = None;
        let mut bytes = b"\r\n".repeat(1 + t::weighted(&[2, 4, 1]));
        bytes.extend_from_slice(&s2.head_bytes());
        if bytes.len() < 1000 {
            last.malformed = Some(("grey-leading-crlf".to_string(), crate::client::hex(&bytes)));
            reqs.push(last);
        }
    }
    let n = 1 + t::weighted(&[5, 3, 2]);
    let deliveries = (0..n).map(|_| gen_delivery(&reqs, cfg, out)).collect();
    Scenario { reqs, deliveries }
}

pub fn run(cfg: &RunCfg, direct: Option<&serde_json::Value>) -> Outcome {
    let mut out = Outcome::new();
    let sc: Scenario = match direct {
        Some(v) => match serde_json::from_value(v.clone()) {
            Ok(s) => s,
            Err(e) => {
                out.verdict = Verdict::Inconclusive(format!("cannot decode scenario: {e}"));
                return out;
            }
        },
        None => generate(cfg, &mut out),
    };
    rt::mark_generated();
    execute(&sc, &mut out);
    out
}

#[derive(Default)]
struct DelObs {
    resps: Vec<Result<Resp, RecvErr>>,
    closed: Option<(bool, Vec<u8>)>,
}

fn execute(sc: &Scenario, out: &mut Outcome) {
    let all: Vec<&ReqItem> = sc.reqs.iter().collect();
    sess::configure_dump(&all);
    out.scenario = serde_json::to_value(sc).unwrap_or(serde_json::Value::Null);
    out.scenario_hash = rt::fnv64(serde_json::to_string(sc).unwrap_or_default().as_bytes());
    let lay = layout(&sc.reqs);
    let stream: Vec<u8> = sc.reqs.iter().flat_map(|r| r.bytes()).collect();
    let total = stream.len();
    let heads: Vec<bool> = sc.reqs.iter().map(|r| r.is_head()).collect();
    let last_closes = sc.reqs.last().map(|r| r.wants_close()).unwrap_or(false);

    for d in &sc.deliveries {
        for h in hazards_of(&sc.reqs, d) {
            out.hazard(h);
        }
        for c in &d.cuts {
            for (s, he, e) in &lay {
                if c > s && c < he {
                    let line_end = s + sc.reqs[0].spec.method.len() + 1; // approximate: inside the first bytes
                    let _ = line_end;
                    let first_crlf = stream[*s..*he].windows(2).position(|w| w == b"\r\n").unwrap_or(0) + s;
                    if *c <= first_crlf {
                        out.probe("c06.cut_in_request_line");
                    } else if *c >= he - 3 {
                        out.probe("c06.cut_at_blank_line");
                    } else {
                        out.probe("c06.cut_in_header");
                    }
                } else if c > he && c < e {
                    out.probe("c06.cut_in_body");
                    if e - s > 1024 {
                        out.probe("c06.body_over_buffer_split");
                    }
                }
            }
        }
        if d.family == "pipelined" {
            let bounds: Vec<usize> = lay.iter().map(|l| l.2).filter(|e| *e < total).collect();
            if bounds.iter().any(|b| !d.cuts.contains(b)) {
                out.probe("c06.two_requests_one_segment");
            }
        }
        out.states.push(format!("{}|cuts{}|short{}", d.family, d.cuts.len().min(4), d.short_reads as u8));
    }

    simcore::with(|w| {
        for d in &sc.deliveries {
            w.count_n("fault.segment_cut", d.cuts.len() as u64);
            w.count_n("fault.delay_between_segments", d.gaps_ms.iter().filter(|g| **g > 0).count() as u64);
            if d.family == "pipelined" {
                w.count("fault.pipelined_delivery");
            }
        }
    });
    rt::serve(sess::build_app());

    // baseline: one segment per request, each after the previous response
    let base = Rc::new(RefCell::new(DelObs::default()));
    {
        let o = base.clone();
        let reqs = sc.reqs.clone();
        simcore::spawn_task("baseline", "client", async move {
            let Ok(mut c) = Client::connect(rt::ADDR, ConnCfg::default()).await else { return };
            for it in &reqs {
                c.send(&it.bytes(), 0);
                let r = c.recv(it.is_head(), DEFAULT_TIMEOUT).await;
                let ok = r.is_ok();
                o.borrow_mut().resps.push(r);
                if !ok {
                    return;
                }
            }
            c.send_fin(0);
            let r = c.drain_until_close(DEFAULT_TIMEOUT).await;
            o.borrow_mut().closed = Some(r);
        });
    }
    let dobs: Vec<Rc<RefCell<DelObs>>> = sc.deliveries.iter().map(|_| Rc::new(RefCell::new(DelObs::default()))).collect();
    for (di, d) in sc.deliveries.iter().enumerate() {
        let o = dobs[di].clone();
        let d = d.clone();
        let stream = stream.clone();
        let lay = lay.clone();
        let heads = heads.clone();
        simcore::spawn_task(format!("delivery{di}"), "client", async move {
            let cfg = ConnCfg { short_reads: d.short_reads, ..ConnCfg::default() };
            let Ok(mut c) = Client::connect(rt::ADDR, cfg).await else { return };
            // segments of the stream
            let mut bounds: Vec<usize> = vec![0];
            bounds.extend(d.cuts.iter().copied());
            bounds.push(stream.len());
            let segs: Vec<(usize, usize)> = bounds.windows(2).map(|w| (w[0], w[1])).collect();
            if d.family == "pipelined" {
                for (i, (a, b)) in segs.iter().enumerate() {
                    if i > 0 {
                        let g = d.gaps_ms.get(i - 1).copied().unwrap_or(0);
                        if g > 0 {
                            sleep(g * MS).await;
                        }
                    }
                    c.send(&stream[*a..*b], 0);
                }
                for h in &heads {
                    let r = c.recv(*h, DEFAULT_TIMEOUT).await;
                    let ok = r.is_ok();
                    o.borrow_mut().resps.push(r);
                    if !ok {
                        return;
                    }
                }
            } else {
                let mut si = 0;
                for (k, (_, _, e)) in lay.iter().enumerate() {
                    while si < segs.len() && segs[si].1 <= *e {
                        if si > 0 {
                            let g = d.gaps_ms.get(si - 1).copied().unwrap_or(0);
                            if g > 0 {
                                sleep(g * MS).await;
                            }
                        }
                        c.send(&stream[segs[si].0..segs[si].1], 0);
                        si += 1;
                    }
                    let r = c.recv(heads[k], DEFAULT_TIMEOUT).await;
                    let ok = r.is_ok();
                    o.borrow_mut().resps.push(r);
                    if !ok {
                        return;
                    }
                }
            }
            c.send_fin(0);
            let r = c.drain_until_close(DEFAULT_TIMEOUT).await;
            o.borrow_mut().closed = Some(r);
        });
    }
    let end = simcore::run();
    if simcore::with(|w| w.counters.get("fault.short_read").copied().unwrap_or(0)) > 0 {
        out.probe("c06.short_read_fired");
    }

    // ---- oracle
    let panics = rt::panicked_tasks();
    if let Some((_, _, file, _, msg)) = panics.first() {
        out.violate("no-panic", rt::panic_site(file, msg), format!("a server task panicked at {file}: {msg}"));
        return;
    }
    if matches!(end, simcore::EndReason::StepCap | simcore::EndReason::TimeCap) {
        out.verdict = Verdict::Inconclusive(format!("{end:?}"));
        return;
    }
    let describe = |r: &Result<Resp, RecvErr>| -> String {
        match r {
            Ok(r) => format!("status {}", r.status),
            Err(RecvErr::Closed(p)) => format!("closed after {} bytes", p.len()),
            Err(RecvErr::Reset(_)) => "reset".into(),
            Err(RecvErr::Timeout(p)) => format!("timeout after {} bytes", p.len()),
            Err(RecvErr::Malformed(m, _)) => format!("malformed response: {m}"),
        }
    };
    let b = base.borrow();
    // the baseline against the reference
    for (k, it) in sc.reqs.iter().enumerate() {
        let shown = format!("{:?}", String::from_utf8_lossy(&it.bytes()).chars().take(160).collect::<String>());
        let grey = it.malformed.as_ref().is_some_and(|(kind, _)| kind.starts_with("grey-"));
        match b.resps.get(k) {
            Some(Ok(_)) | Some(Err(RecvErr::Closed(_))) if grey => {
                out.probe("c06.grey_last_request");
            }
            Some(Ok(r)) if it.malformed.is_some() => {
                out.probe("c06.malformed_last_request");
                if r.status < 400 || r.header("X-Dump").is_some() {
                    out.violate("baseline-matches-reference", format!("malformed-status-{}", r.status), format!("baseline request {k} is malformed but was answered with {}; request={shown}", describe(&b.resps[k])));
                    return;
                }
            }
            Some(Ok(r)) => {
                let shape = it.spec.headers.iter().find(|(n, _)| n == "x-shape").map(|(_, v)| String::from_utf8_lossy(v).into_owned()).unwrap_or_default();
                if r.status != (if shape == "204" { 204 } else { 200 }) || r.header("X-Dump").is_none() {
                    out.violate("baseline-matches-reference", format!("status-{}", r.status), format!("baseline request {k}: {}; request={shown}", describe(&b.resps[k])));
                    return;
                }
                if !shape.is_empty() {
                    out.probe("c06.response_without_content_length");
                }
                if !it.is_head() && shape != "204" {
                    let text = if shape == "stream" { r.body_text().lines().filter_map(|l| l.strip_prefix("data: ").map(|s| s.to_string())).collect::<Vec<_>>().join("\n") } else { r.body_text() };
                    if let Some((aspect, msg)) = sess::dump_diff(&text, &it.spec) {
                        out.violate("baseline-matches-reference", aspect, format!("baseline request {k}: {msg}; request={shown}"));
                        return;
                    }
                }
            }
            other => {
                out.violate("baseline-matches-reference", "no-response", format!("baseline request {k}: {:?}; request={shown}", other.map(describe)));
                return;
            }
        }
    }
    for (di, d) in sc.deliveries.iter().enumerate() {
        let o = dobs[di].borrow();
        let hz = hazards_of(&sc.reqs, d).join("+");
        let tag = if hz.is_empty() { "benign".to_string() } else { hz };
        for k in 0..sc.reqs.len() {
            let shown = format!("{:?}", String::from_utf8_lossy(&sc.reqs[k].bytes()).chars().take(120).collect::<String>());
            if sc.reqs[k].malformed.as_ref().is_some_and(|(kind, _)| kind.starts_with("grey-")) {
                // no reference value: served or refused, the same under every delivery
                let same = match (o.resps.get(k), &b.resps[k]) {
                    (Some(Ok(r)), Ok(br)) => r.masked() == br.masked(),
                    (Some(Err(RecvErr::Closed(p))), Err(RecvErr::Closed(bp))) => p == bp,
                    _ => false,
                };
                if !same {
                    out.violate(
                        "delivery-equals-baseline",
                        format!("{tag}/grey-differs"),
                        format!("delivery {di} ({} cuts {:?} gaps {:?} short_reads {}) response {k}: {}; baseline: {}; request={shown}", d.family, d.cuts, d.gaps_ms, d.short_reads, o.resps.get(k).map(describe).unwrap_or("never attempted".into()), describe(&b.resps[k])),
                    );
                    return;
                }
                continue;
            }
            let br = b.resps[k].as_ref().unwrap();
            match o.resps.get(k) {
                Some(Ok(r)) => {
                    out.nontrivial = true;
                    if r.masked() != br.masked() {
                        out.violate(
                            "delivery-equals-baseline",
                            format!("{tag}/differs"),
                            format!("delivery {di} ({} cuts {:?} gaps {:?} short_reads {}) response {k}: [{}] baseline [{}]; request={shown}", d.family, d.cuts, d.gaps_ms, d.short_reads, r.masked().chars().take(500).collect::<String>(), br.masked().chars().take(500).collect::<String>()),
                        );
                        return;
                    }
                }
                Some(Err(e)) => {
                    let kind = match e {
                        RecvErr::Closed(_) => "closed",
                        RecvErr::Reset(_) => "reset",
                        RecvErr::Timeout(_) => "timeout",
                        RecvErr::Malformed(..) => "malformed-response",
                    };
                    out.violate(
                        "delivery-equals-baseline",
                        format!("{tag}/{kind}"),
                        format!("delivery {di} ({} cuts {:?} gaps {:?} short_reads {}) response {k}: {}; baseline: status {}; request={shown}", d.family, d.cuts, d.gaps_ms, d.short_reads, describe(o.resps.get(k).unwrap()), br.status),
                    );
                    return;
                }
                None => {
                    out.violate("delivery-equals-baseline", format!("{tag}/missing"), format!("delivery {di}: response {k} never attempted"));
                    return;
                }
            }
        }
        // after the last response: same closing behaviour, no stray bytes
        if let (Some((bc, bextra)), Some((dc, dextra))) = (&b.closed, &o.closed) {
            if !dextra.is_empty() || !bextra.is_empty() {
                out.violate("delivery-equals-baseline", format!("{tag}/stray-bytes"), format!("delivery {di}: {} stray bytes after the last response (baseline {})", dextra.len(), bextra.len()));
                return;
            }
            if last_closes && bc != dc {
                out.violate("delivery-equals-baseline", format!("{tag}/close-differs"), format!("delivery {di}: closed={dc} baseline closed={bc}"));
                return;
            }
        }
    }
}
