//! C18 — graceful shutdown waits for in-flight sessions and never loses the interrupt.
//! The real Ctrl-C closure runs on a hand-off thread; its three atomic steps interleave with the three
//! steps of `UntilInterrupt::poll` at the scheduling points of hook K2, under tape control.

use super::PropInfo;
use crate::client::{Client, RecvErr, Resp, DEFAULT_TIMEOUT};
use crate::rt::{self, t, Outcome, RunCfg, Verdict};
use ohkami::{Ohkami, Request, Route};
use serde::{Deserialize, Serialize};
use simcore::{signal, sleep, ConnCfg, MS};
use std::cell::RefCell;
use std::rc::Rc;

pub const INFO: PropInfo = PropInfo {
    quick_runs: 40_000,
    thorough_runs: 1_500_000,
    rule: "each run = the real howl with 0..6 client connections in tape-chosen stages (connecting, mid-request, inside a handler sleeping 0..20 s, idle keep-alive, half-sent request) and a simulated SIGINT at a tape-chosen instant, \
           the steps of the real Ctrl-C closure (set flag / take waker / wake) interleaved with UntilInterrupt::poll (poll accept / read flag / publish waker) at hook K2's scheduling points; optionally a second SIGINT, late connection attempts and failing accept calls (ECONNABORTED / EMFILE-like) around the interrupt; \
           non-trivial = the interrupt was delivered and its handler finished; distinct = distinct hash of (client plans, signal time, interleaving decisions)",
    state_measure: "distinct orders of the scheduling points of the closure (sig:*) and of the poll (poll:*) observed while a handler was running, first poll and later polls counted separately",
    assumptions: &[
        "the interrupt is delivered only once ctrlc::set_handler has installed the handler (before that the process would simply die)",
        "all atomics involved are SeqCst, so interleaving at the six scheduling points is complete for this protocol (DESIGN.md 2.5)",
        "the oracle names no deadline while sessions are still running; every session ends by itself (client closes, or keep-alive timeout)",
    ],
    expected_probes: &["c18.signal_during_first_poll", "c18.signal_between_checked_and_published", "c18.sessions_in_flight_at_signal", "c18.late_connect_refused", "c18.second_signal", "c18.slow_handler_finished_after_signal", "c18.spinner_rule_engaged", "c18.signal_with_no_sessions", "c18.session_ended_by_panic", "c18.sse_stream_in_flight", "c18.accept_failed", "c18.connect_attempt_after_handler_returned", "c18.keepalive_timeout_raised", "c18.session_in_flight_more_than_45s_after_the_interrupt", "c18.preempted_at_an_access_to_the_wait_group_counter", "c18.howl_future_moved_to_another_task"],
};

#[derive(Clone, Debug, Serialize, Deserialize)]
pub enum ClientKind {
    /// GET /slow with a handler sleeping `delay_ms`
    Slow { delay_ms: u64 },
    Fast,
    /// connect, send nothing, close after `close_after_ms`
    Idle { close_after_ms: u64 },
    /// send half a request, the rest after `rest_after_ms`
    Half { rest_after_ms: u64 },
    /// two requests on one connection, the second after `gap_ms`
    Two { gap_ms: u64, delay_ms: u64 },
    /// a request whose handler panics after `delay_ms` (user code may panic; the session task then ends by unwinding)
    Panic { delay_ms: u64 },
    /// a server-sent event stream of `n` messages, `gap_ms` apart: the session is in flight until the stream ends
    Sse { n: u64, gap_ms: u64 },
    /// fault: asks for a response, never reads a byte of it (its window is smaller than the response, so the server's
    /// write pends) and gives up after `hold_ms`: a session stuck in its write when the interrupt arrives
    NeverReads { hold_ms: u64 },
}
#[derive(Clone, Debug, Serialize, Deserialize)]
pub struct ClientPlan {
    pub start_ms: u64,
    pub kind: ClientKind,
}
#[derive(Clone, Debug, Serialize, Deserialize)]
pub struct Scenario {
    pub clients: Vec<ClientPlan>,
    /// simulated time (ms) of the first SIGINT
    pub sigint_ms: u64,
    pub second_sigint_after_ms: Option<u64>,
    /// let the server run its first poll before anything else happens (else the tape decides)
    pub server_first: bool,
    /// the first SIGINT is already due when the world starts (it can then reach the handler thread inside the very first poll)
    #[serde(default)]
    pub due_at_start: bool,
    /// fault: `accept` fails at these instants (ms); 0 ConnectionAborted, 1 "too many open files"
    #[serde(default)]
    pub accept_errors: Vec<(u64, u8)>,
    /// tuning knob: `OHKAMI_KEEPALIVE_TIMEOUT` for this run (None = the default of 42 s). A session may then legitimately
    /// be in flight for minutes after the interrupt
    #[serde(default)]
    pub keepalive_s: Option<u64>,
    /// the `howl` future is polled once by one task (a start-up probe such as `timeout(.., &mut howl)`) and then awaited
    /// by another: from the second poll on it is polled with a different waker
    #[serde(default)]
    pub moved: bool,
    /// (wave 18) environment: SIGINT's disposition is not the default when the process starts (ignored — `sh -c './server &'`
    /// — or taken by a library): `ctrlc::set_handler` overrides that; nothing changes for the tree
    #[serde(default)]
    pub sigint_not_default_at_start: bool,
}

pub fn generate(_cfg: &RunCfg, _out: &mut Outcome) -> Scenario {
    // (wave 17) ... or set to 0: every session is over at once, served or not — and `howl` returns all the same
    let keepalive_s = if t::chance(1, 5) { Some(t::pick(&[120u64, 300])) } else if t::chance(1, 12) { Some(0) } else { None };
    let long = keepalive_s.is_some_and(|k| k > 0);
    let n = t::weighted(&[2, 3, 3, 2, 1, 1, 1]);
    let sigint_ms = t::pick(&[0u64, 0, 1, 2, 5, 30, 400, 3000]);
    let clients = (0..n)
        .map(|_| {
            let start_ms = match t::draw(4) {
                0 => 1,
                1 => sigint_ms.saturating_sub(t::pick(&[0u64, 1, 2, 10])).max(1),
                2 => sigint_ms + t::pick(&[0u64, 1, 5, 100]),
                _ => t::pick(&[1u64, 2, 3, 50, 500]),
            };
            let kind = match t::weighted(&[4, 3, 2, 2, 2, 2, 2, 1]) {
                // (wave 15) u64::MAX = a peer that never reads and never goes away either: the keep-alive time-out is then the
                // only thing that ends its session, and `howl` must still return — at quiescence, no bound is asserted
                7 => ClientKind::NeverReads { hold_ms: t::pick(&[1u64, 50, 5000, 41_000, 43_000, 100_000, u64::MAX, u64::MAX]) },
                6 => ClientKind::Sse { n: t::range(0, 5), gap_ms: t::pick(&[0u64, 1, 200, 4000]) },
                5 => ClientKind::Panic { delay_ms: t::pick(&[0u64, 1, 50, 2000]) },
                0 if long => ClientKind::Slow { delay_ms: t::pick(&[2000u64, 20_000, 44_000, 46_000, 60_000, 100_000]) },
                0 => ClientKind::Slow { delay_ms: t::pick(&[0u64, 1, 50, 2000, 20_000]) },
                1 => ClientKind::Fast,
                // (u64::MAX: connects, says nothing and stays for ever)
                2 => ClientKind::Idle { close_after_ms: t::pick(&[1u64, 100, 5000, 60_000, u64::MAX]) },
                3 => ClientKind::Half { rest_after_ms: t::pick(&[1u64, 100, 3000]) },
                _ => ClientKind::Two { gap_ms: t::pick(&[0u64, 1, 300, 5000]), delay_ms: t::pick(&[0u64, 10, 1000]) },
            };
            ClientPlan { start_ms, kind }
        })
        .collect();
    let due_at_start = sigint_ms == 0 && t::chance(1, 2);
    let accept_errors: Vec<(u64, u8)> = if t::chance(1, 4) {
        (0..1 + t::draw(3)).map(|_| (match t::draw(3) { 0 => sigint_ms.saturating_sub(t::pick(&[0u64, 1, 2])), 1 => sigint_ms + t::pick(&[0u64, 1, 50]), _ => t::pick(&[0u64, 1, 3, 40, 450]) }, t::draw(2) as u8)).collect()
    } else {
        Vec::new()
    };
    Scenario { clients, sigint_ms, second_sigint_after_ms: if t::chance(1, 5) { Some(t::pick(&[0u64, 1, 100, 10_000])) } else { None }, server_first: !due_at_start && t::chance(1, 2), due_at_start, accept_errors, keepalive_s, moved: t::chance(1, 6), sigint_not_default_at_start: t::chance(1, 8) }
}

pub fn run(cfg: &RunCfg, direct: Option<&serde_json::Value>) -> Outcome {
    let mut out = Outcome::new();
    let sc: Scenario = match direct {
        Some(v) => match serde_json::from_value(v.clone()) {
            Ok(s) => s,
            Err(e) => {
                out.verdict = Verdict::Inconclusive(format!("cannot decode scenario: {e}"));
                return out;
            }
        },
        None => generate(cfg, &mut out),
    };
    rt::mark_generated();
    execute(&sc, &mut out);
    out
}

async fn slow(req: &Request) -> &'static str {
    let _ = req;
    "unused"
}

#[derive(Default)]
struct CObs {
    /// simulated instant of the connection attempt, and whether something was listening at that instant
    attempt_at: Option<u64>,
    listening_at_attempt: bool,
    refused: bool,
    refused_at_step: Option<u64>,
    connected_at_step: Option<u64>,
    results: Vec<Result<Resp, RecvErr>>,
    expected_responses: usize,
    sent_complete_request: bool,
}

thread_local! {
    /// simulated instant at which the first run of the Ctrl-C closure returned
    static FIRST_HANDLER_DONE_AT: std::cell::Cell<Option<u64>> = const { std::cell::Cell::new(None) };
    /// executor step at which the first SIGINT reached the handler thread
    static FIRST_DELIVERY_STEP: std::cell::Cell<Option<u64>> = const { std::cell::Cell::new(None) };
    /// SIGINTs whose time has come but which the (simulated) kernel has not yet handed to the handler thread
    static DUE: std::cell::Cell<u32> = const { std::cell::Cell::new(0) };
}
/// one step of the handler thread; remembers the simulated instant at which the first handler run completed
fn step_handler() -> Option<String> {
    let r = signal::step();
    if r.as_deref() == Some("done") && FIRST_HANDLER_DONE_AT.with(|f| f.get()).is_none() {
        let now = simcore::with(|w| w.now);
        FIRST_HANDLER_DONE_AT.with(|f| f.set(Some(now)));
    }
    r
}
fn try_deliver() -> bool {
    if DUE.with(|d| d.get()) > 0 && signal::handler_installed() && !signal::can_step() && signal::deliver() {
        DUE.with(|d| d.set(d.get() - 1));
        simcore::with(|w| {
            w.count("fault.sigint_delivered");
            w.note("SIGINT delivered");
            if FIRST_DELIVERY_STEP.with(|f| f.get()).is_none() {
                let st = w.steps;
                FIRST_DELIVERY_STEP.with(|f| f.set(Some(st)));
            }
        });
        return true;
    }
    false
}

fn execute(sc: &Scenario, out: &mut Outcome) {
    let _ = slow;
    out.scenario = serde_json::to_value(sc).unwrap_or(serde_json::Value::Null);
    out.scenario_hash = rt::fnv64(serde_json::to_string(sc).unwrap_or_default().as_bytes());
    signal::reset();
    signal::SIGINT_NOT_DEFAULT_AT_START.store(sc.sigint_not_default_at_start, std::sync::atomic::Ordering::SeqCst);
    if sc.sigint_not_default_at_start {
        out.probe("c18.sigint_disposition_not_default_at_start");
    }
    if let Some(k) = sc.keepalive_s {
        rt::set_keepalive_timeout(k);
        out.probe("c18.keepalive_timeout_raised");
    }
    FIRST_DELIVERY_STEP.with(|f| f.set(None));
    FIRST_HANDLER_DONE_AT.with(|f| f.set(None));

    // interleaving decisions at the poll's scheduling points (executor thread)
    let first_poll_seen = Rc::new(RefCell::new(false));
    let polls_with_signal: Rc<RefCell<Vec<String>>> = Rc::new(RefCell::new(Vec::new()));
    {
        let fps = first_poll_seen.clone();
        let pws = polls_with_signal.clone();
        let mut cur: Vec<String> = Vec::new();
        let mut is_first = true;
        crate::rt::SCHED_CB.with(|c| {
            *c.borrow_mut() = Some(Box::new(move |name: &'static str| {
                if name.starts_with("atomic:") {
                    // hook K5: an access to the wait-group counter. On a multi-thread runtime other workers run sessions
                    // between any two such accesses of the accept loop (and vice versa): preempt here, sometimes
                    // (a plain store is where a lost update would happen: preempt in front of it more often)
                    if if name == "atomic:store" { t::chance(2, 3) } else { t::chance(1, 3) } {
                        let n = simcore::run_others_nested(1 + t::draw(3) as usize);
                        if n > 0 {
                            simcore::with(|w| w.count("fault.preempted_at_atomic_access"));
                        }
                    }
                    return;
                }
                if name == "poll:entry" {
                    cur.clear();
                    is_first = !*fps.borrow();
                    *fps.borrow_mut() = true;
                }
                cur.push(name.to_string());
                // a due SIGINT may reach the handler thread at any instant, also in the middle of this poll
                if DUE.with(|d| d.get()) > 0 && t::chance(1, 2) {
                    try_deliver();
                }
                if signal::can_step() {
                    // how far does the handler thread get right here?
                    let k = t::weighted(&[4, 2, 1, 1, 1]);
                    for _ in 0..k {
                        match step_handler() {
                            Some(p) => cur.push(if p == "done" { "sig:done".to_string() } else { p }),
                            None => break,
                        }
                        if !signal::can_step() {
                            break;
                        }
                    }
                }
                if name == "poll:published" && cur.iter().any(|x| x.starts_with("sig:")) {
                    pws.borrow_mut().push(format!("{}{}", if is_first { "first|" } else { "later|" }, cur.join(">")));
                }
            }));
        });
    }

    let app = Ohkami::new((
        "/slow".GET(|req: &Request| {
            let d = req.headers.get("x-delay-ms").and_then(|v| v.parse::<u64>().ok()).unwrap_or(0);
            async move {
                if d > 0 {
                    tokio::time::sleep(std::time::Duration::from_millis(d)).await;
                }
                "slow done"
            }
        }),
        "/fast".GET(|| async { "fast" }),
        "/sse".GET(|req: &Request| {
            let n = req.headers.get("x-n").and_then(|v| v.parse::<u64>().ok()).unwrap_or(0);
            let gap = req.headers.get("x-delay-ms").and_then(|v| v.parse::<u64>().ok()).unwrap_or(0);
            async move {
                let ds: ohkami::sse::DataStream<String> = ohkami::sse::DataStream::new(move |mut s| async move {
                    for i in 0..n {
                        if gap > 0 {
                            tokio::time::sleep(std::time::Duration::from_millis(gap)).await;
                        }
                        s.send(format!("message {i}"));
                    }
                });
                ds
            }
        }),
        "/panic".GET(|req: &Request| {
            let d = req.headers.get("x-delay-ms").and_then(|v| v.parse::<u64>().ok()).unwrap_or(0);
            async move {
                if d > 0 {
                    tokio::time::sleep(std::time::Duration::from_millis(d)).await;
                }
                if d < u64::MAX {
                    panic!("scripted handler panic");
                }
                "unreachable"
            }
        }),
    ));
    let server = if sc.moved {
        out.probe("c18.howl_future_moved_to_another_task");
        type Boxed = std::pin::Pin<Box<dyn std::future::Future<Output = ()>>>;
        let hand_over: Rc<RefCell<Option<Boxed>>> = Rc::new(RefCell::new(None));
        let (h1, h2) = (hand_over.clone(), hand_over.clone());
        let mut fut: Boxed = Box::pin(async move {
            app.howl(rt::ADDR).await;
        });
        let starter = simcore::spawn_task("server-starter", "client", async move {
            let ready = std::future::poll_fn(|cx| std::task::Poll::Ready(fut.as_mut().poll(cx).is_ready())).await;
            if !ready {
                *h1.borrow_mut() = Some(fut);
            }
        });
        // the probing poll happens first (the server binds and parks in accept, with the starter's waker published)
        simcore::poll_task_now(starter);
        simcore::spawn_task("server", "server", async move {
            let f = h2.borrow_mut().take();
            if let Some(f) = f {
                f.await;
            }
        })
    } else {
        simcore::spawn_task("server", "server", async move {
            app.howl(rt::ADDR).await;
        })
    };
    if sc.server_first {
        simcore::poll_task_now(server);
    }
    // the handler thread is one more schedulable item between polls
    DUE.with(|d| d.set(if sc.due_at_start { 1 } else { 0 }));
    simcore::with(|w| {
        w.ext_ready = Some(Box::new(|| signal::can_step() || (DUE.with(|d| d.get()) > 0 && signal::handler_installed())));
        w.ext_step = Some(Box::new(|| {
            if signal::can_step() {
                let _ = step_handler();
            } else {
                try_deliver();
            }
        }));
    });
    // SIGINT(s): from their instant on they are due; when exactly the handler thread starts is a scheduling decision
    {
        let at = sc.sigint_ms * MS;
        if !sc.due_at_start {
            simcore::with(|w| w.at(at, Box::new(|| DUE.with(|d| d.set(d.get() + 1)))));
        }
        if let Some(d) = sc.second_sigint_after_ms {
            let at2 = (sc.sigint_ms + d) * MS;
            simcore::with(|w| w.at(at2, Box::new(|| DUE.with(|d| d.set(d.get() + 1)))));
        }
    }

    for (at_ms, kind) in &sc.accept_errors {
        let kind = if *kind == 0 { std::io::ErrorKind::ConnectionAborted } else { std::io::ErrorKind::Other };
        simcore::with(|w| {
            w.at(at_ms * MS, Box::new(move || {
                simcore::with(|w| {
                    w.inject_accept_error(rt::ADDR, kind);
                });
            }))
        });
    }
    let obs: Vec<Rc<RefCell<CObs>>> = sc.clients.iter().map(|_| Rc::new(RefCell::new(CObs::default()))).collect();
    for (i, plan) in sc.clients.iter().enumerate() {
        let o = obs[i].clone();
        let plan = plan.clone();
        simcore::spawn_task(format!("client{i}"), "client", async move {
            sleep(plan.start_ms.max(1) * MS).await;
            {
                let (now, open) = simcore::with(|w| (w.now, w.listener_open(rt::ADDR)));
                let mut ob = o.borrow_mut();
                ob.attempt_at = Some(now);
                ob.listening_at_attempt = open;
            }
            let cfg = if matches!(plan.kind, ClientKind::NeverReads { .. }) { ConnCfg { window: 48, ..ConnCfg::default() } } else { ConnCfg::default() };
            let mut c = match Client::connect(rt::ADDR, cfg).await {
                Ok(c) => c,
                Err(_) => {
                    let mut ob = o.borrow_mut();
                    ob.refused = true;
                    ob.refused_at_step = Some(simcore::with(|w| w.steps));
                    return;
                }
            };
            // the step at which the server's `accept` took the connection — not the one at which this task noticed: with the
            // keep-alive time-out at 0 a whole session, and `howl`'s return, fit in between
            o.borrow_mut().connected_at_step = Some(simcore::with(|w| w.conn_accepted_step(c.ep.conn).unwrap_or(w.steps)));
            let slow_req = |d: u64| format!("GET /slow HTTP/1.1\r\nHost: s\r\nx-delay-ms: {d}\r\n\r\n");
            match plan.kind {
                ClientKind::Slow { delay_ms } => {
                    c.send(slow_req(delay_ms).as_bytes(), 0);
                    {
                        let mut ob = o.borrow_mut();
                        ob.sent_complete_request = true;
                        ob.expected_responses = 1;
                    }
                    // a patient client: the handler may sleep for longer than the default time-out
                    let r = c.recv(false, DEFAULT_TIMEOUT + delay_ms * MS).await;
                    o.borrow_mut().results.push(r);
                }
                ClientKind::Fast => {
                    c.send(b"GET /fast HTTP/1.1\r\nHost: s\r\n\r\n", 0);
                    {
                        let mut ob = o.borrow_mut();
                        ob.sent_complete_request = true;
                        ob.expected_responses = 1;
                    }
                    let r = c.recv(false, DEFAULT_TIMEOUT).await;
                    o.borrow_mut().results.push(r);
                }
                ClientKind::Sse { n, gap_ms } => {
                    c.send(format!("GET /sse HTTP/1.1\r\nHost: s\r\nx-n: {n}\r\nx-delay-ms: {gap_ms}\r\n\r\n").as_bytes(), 0);
                    {
                        let mut ob = o.borrow_mut();
                        ob.sent_complete_request = true;
                        ob.expected_responses = 1;
                    }
                    let r = c.recv(false, DEFAULT_TIMEOUT).await;
                    if let Ok(resp) = &r {
                        // the whole stream must have arrived: in-flight sessions are served to the end
                        if resp.body_text().matches("data: message").count() as u64 != n {
                            o.borrow_mut().expected_responses = 99;
                        }
                    }
                    o.borrow_mut().results.push(r);
                }
                ClientKind::Panic { delay_ms } => {
                    c.send(format!("GET /panic HTTP/1.1\r\nHost: s\r\nx-delay-ms: {delay_ms}\r\n\r\n").as_bytes(), 0);
                    // the handler panics: the connection is dropped without a response (nothing is owed)
                    let r = c.recv(false, DEFAULT_TIMEOUT).await;
                    o.borrow_mut().results.push(r);
                }
                ClientKind::Idle { close_after_ms } => {
                    if close_after_ms == u64::MAX {
                        simcore::with(|w| w.count("fault.client_silent_for_ever"));
                        std::future::pending::<()>().await;
                    }
                    sleep(close_after_ms * MS).await;
                }
                ClientKind::NeverReads { hold_ms } => {
                    c.send(b"GET /fast HTTP/1.1\r\nHost: s\r\n\r\n", 0);
                    simcore::with(|w| w.count("fault.client_never_reads"));
                    // nothing is read, so nothing is owed as far as this client can tell; it goes away by itself
                    if hold_ms == u64::MAX {
                        simcore::with(|w| w.count("fault.client_never_reads_never_leaves"));
                        std::future::pending::<()>().await;
                    }
                    sleep(hold_ms * MS).await;
                }
                ClientKind::Half { rest_after_ms } => {
                    c.send(b"GET /fast HT", 0);
                    sleep(rest_after_ms * MS).await;
                    c.send(b"TP/1.1\r\nHost: s\r\n\r\n", 0);
                    {
                        let mut ob = o.borrow_mut();
                        ob.sent_complete_request = true;
                        ob.expected_responses = 1;
                    }
                    let r = c.recv(false, DEFAULT_TIMEOUT).await;
                    o.borrow_mut().results.push(r);
                }
                ClientKind::Two { gap_ms, delay_ms } => {
                    c.send(slow_req(delay_ms).as_bytes(), 0);
                    {
                        let mut ob = o.borrow_mut();
                        ob.sent_complete_request = true;
                        ob.expected_responses = 2;
                    }
                    let r = c.recv(false, DEFAULT_TIMEOUT).await;
                    let ok = r.is_ok();
                    o.borrow_mut().results.push(r);
                    if ok {
                        sleep(gap_ms * MS).await;
                        c.send(b"GET /fast HTTP/1.1\r\nHost: s\r\n\r\n", 0);
                        let r = c.recv(false, DEFAULT_TIMEOUT).await;
                        o.borrow_mut().results.push(r);
                    }
                }
            }
            c.send_fin(0);
            let _ = c.drain_until_close(DEFAULT_TIMEOUT).await;
        });
    }

    let end = simcore::run();
    crate::rt::SCHED_CB.with(|c| *c.borrow_mut() = None);
    // let a handler thread that is still parked finish, so that no thread outlives the run
    let mut guard = 0;
    while signal::can_step() && guard < 16 {
        let _ = step_handler();
        guard += 1;
    }
    let (delivered, finished) = signal::counts();
    let points = signal::take_points();
    for p in polls_with_signal.borrow().iter() {
        out.states.push(p.clone());
        if p.starts_with("first|") {
            out.probe("c18.signal_during_first_poll");
        }
        // a closure step between poll:checked and poll:published
        if let (Some(a), Some(b)) = (p.find("poll:checked"), p.find("poll:published")) {
            if p[a..b].contains("sig:") {
                out.probe("c18.signal_between_checked_and_published");
            }
        }
    }
    let _ = points;
    if simcore::with(|w| w.counters.get("exec.spin").copied().unwrap_or(0)) > 0 {
        out.probe("c18.spinner_rule_engaged");
    }
    if simcore::with(|w| w.counters.get("fault.preempted_at_atomic_access").copied().unwrap_or(0)) > 0 {
        out.probe("c18.preempted_at_an_access_to_the_wait_group_counter");
    }
    if delivered >= 2 {
        out.probe("c18.second_signal");
    }

    // ---- oracle
    // the scripted handler panic is user code misbehaving, not the framework
    let panics: Vec<_> = rt::panicked_tasks().into_iter().filter(|p| !p.4.starts_with("scripted handler panic")).collect();
    if rt::panicked_tasks().len() > panics.len() {
        out.probe("c18.session_ended_by_panic");
    }
    if let Some((_, _, file, _, msg)) = panics.first() {
        out.violate("no-panic", rt::panic_site(file, msg), format!("a server task panicked at {file}: {msg}"));
        return;
    }
    if matches!(end, simcore::EndReason::StepCap | simcore::EndReason::TimeCap) {
        out.verdict = Verdict::Inconclusive(format!("{end:?}"));
        return;
    }
    // the server accepted connections, an interrupt is due, and no handler was ever installed: the interrupt is lost for good
    if delivered == 0 && !signal::handler_installed() && simcore::with(|w| (0..w.n_conns()).any(|c| w.conn_accepted(c))) {
        out.nontrivial = true;
        out.violate("howl-returns-eventually", "no-interrupt-handler-installed", format!("howl is accepting connections but never installed its Ctrl-C handler (SIGINT disposition not default at start: {}): the interrupt can never be honoured", sc.sigint_not_default_at_start));
        return;
    }
    if delivered == 0 || finished == 0 {
        out.verdict = Verdict::Inconclusive("the interrupt was not delivered (handler never installed)".into());
        return;
    }
    out.nontrivial = true;
    let (server_done, server_done_step, sessions): (bool, Option<u64>, Vec<(usize, Option<u64>, u64)>) = simcore::with(|w| {
        let s = &w.tasks[server];
        (
            matches!(s.state, simcore::TaskState::Done),
            s.done_step,
            w.tasks.iter().filter(|t| t.kind == "session").map(|t| (t.id, t.done_step, t.spawn_step)).collect(),
        )
    });
    let interleavings = polls_with_signal.borrow().join(" ; ");
    if sessions.is_empty() {
        out.probe("c18.signal_with_no_sessions");
    }
    // liveness: the world is quiescent — every session is over, the handler has finished, nothing can happen any more
    if !server_done {
        let unfinished: Vec<usize> = sessions.iter().filter(|s| s.1.is_none()).map(|s| s.0).collect();
        let by_panic = rt::all_panicked_tasks().iter().any(|p| p.1 == "session");
        let manifestation = if !unfinished.is_empty() { "sessions-never-finish" } else if by_panic { "hang-after-session-ended-by-panic" } else { "lost-wakeup" };
        out.violate(
            "howl-returns-eventually",
            manifestation,
            format!(
                "the interrupt handler finished ({delivered} delivered) and the world is quiescent ({end:?}), but howl has not returned; unfinished sessions: {unfinished:?}; interleavings with the signal: [{interleavings}]"
            ),
        );
        return;
    }
    // safety: howl returned only after every spawned session finished
    let sds = server_done_step.unwrap();
    // ... and only after an interrupt: nothing else (a failing accept, a session that ended badly) stops the server
    let first_delivery = FIRST_DELIVERY_STEP.with(|f| f.get());
    if simcore::with(|w| w.counters.get("fault.accept_error").copied().unwrap_or(0)) > 0 {
        out.probe("c18.accept_failed");
    }
    match first_delivery {
        Some(fd) if sds >= fd => {}
        _ => {
            out.violate("stops-only-after-interrupt", "howl-returned-before-the-interrupt", format!("howl returned at step {sds}, the first interrupt reached the handler at step {first_delivery:?}; accept failures injected: {:?}", sc.accept_errors));
            return;
        }
    }
    // "stops accepting": in the simulated world the clock only moves when nothing is runnable, so at every instant later
    // than the one at which the Ctrl-C closure returned (and woke the accept loop) the loop has observed the interrupt.
    // From then on nothing may be listening: a connection attempt must be refused at once, not parked in a backlog
    // until the sessions have drained.
    if let Some(hd) = FIRST_HANDLER_DONE_AT.with(|f| f.get()) {
        for (i, _) in sc.clients.iter().enumerate() {
            let ob = obs[i].borrow();
            if let Some(at) = ob.attempt_at {
                if at > hd {
                    out.probe("c18.connect_attempt_after_handler_returned");
                    if ob.listening_at_attempt {
                        out.violate(
                            "stops-accepting",
                            "still-listening-after-the-interrupt",
                            format!("client {i} tried to connect at t={at} ns, after the Ctrl-C closure had returned at t={hd} ns and the accept loop had run: the listening socket was still open (the attempt is not refused; it waits in the backlog while sessions drain)"),
                        );
                        return;
                    }
                }
            }
        }
    }
    for (i, _) in sc.clients.iter().enumerate() {
        let ob = obs[i].borrow();
        if let (Some(rs), Some(fd)) = (ob.refused_at_step, first_delivery) {
            if rs < fd {
                out.violate("stops-only-after-interrupt", "connection-refused-before-the-interrupt", format!("client {i} was refused at step {rs}, before the first interrupt reached the handler (step {fd}); accept failures injected: {:?}", sc.accept_errors));
                return;
            }
        }
    }
    for (id, done, _) in &sessions {
        match done {
            Some(d) if *d <= sds => {}
            other => {
                out.violate("howl-waits-for-sessions", "returned-while-session-running", format!("howl returned at step {sds} while session task {id} finished at {other:?}"));
                return;
            }
        }
    }
    // connections attempted after the listener was dropped are refused; accepted ones are served to the end
    for (i, plan) in sc.clients.iter().enumerate() {
        let ob = obs[i].borrow();
        if ob.refused {
            out.probe("c18.late_connect_refused");
            continue;
        }
        if let Some(cs) = ob.connected_at_step {
            if cs > sds {
                out.violate("stops-accepting", "accepted-after-return", format!("client {i} was accepted at step {cs}, after howl returned at step {sds}"));
                return;
            }
        }
        if let ClientKind::NeverReads { hold_ms } = plan.kind {
            if plan.start_ms <= sc.sigint_ms && sc.sigint_ms < plan.start_ms.saturating_add(hold_ms.min(42_000)) {
                out.probe("c18.session_stuck_in_its_write_at_the_interrupt");
            }
            if hold_ms == u64::MAX {
                out.probe("c18.peer_that_never_reads_and_never_leaves");
            }
        }
        if ob.sent_complete_request {
            let ok = ob.results.iter().filter(|r| r.is_ok()).count();
            // (with the keep-alive time-out set to 0 a session is over before it serves anything: configured, not a defect)
            if ok < ob.expected_responses && sc.keepalive_s != Some(0) {
                let accepted = simcore::with(|w| (0..w.n_conns()).any(|c| w.conn_accepted(c)));
                let _ = accepted;
                out.violate(
                    "in-flight-sessions-are-served",
                    "accepted-connection-not-answered",
                    format!("client {i} ({:?}) was accepted but got {ok} of {} responses: {:?}", plan.kind, ob.expected_responses, ob.results.iter().map(|r| r.as_ref().map(|x| x.status).map_err(|e| format!("{e:?}").chars().take(40).collect::<String>())).collect::<Vec<_>>()),
                );
                return;
            }
            out.probe("c18.sessions_in_flight_at_signal");
            if matches!(plan.kind, ClientKind::Sse { .. }) {
                out.probe("c18.sse_stream_in_flight");
            }
            if let ClientKind::Slow { delay_ms } = plan.kind {
                if delay_ms >= 2000 {
                    out.probe("c18.slow_handler_finished_after_signal");
                }
                if plan.start_ms + delay_ms > sc.sigint_ms + 45_000 && plan.start_ms <= sc.sigint_ms {
                    out.probe("c18.session_in_flight_more_than_45s_after_the_interrupt");
                }
            }
        }
    }
}
