//! C05 — requests on a keep-alive connection are handled independently and in order.
//! Metamorphic: response k on the persistent connection == response to the same request alone on a
//! fresh connection (Date masked); the fresh baseline itself is checked against the reference model.

use super::PropInfo;
use crate::client::{Client, RecvErr, Resp, DEFAULT_TIMEOUT};
use crate::rt::{self, t, Outcome, RunCfg, Verdict};
use crate::sess::{self, ReqItem, SeqOpts};
use serde::{Deserialize, Serialize};
use simcore::{sleep, ConnCfg, MS};
use std::cell::RefCell;
use std::rc::Rc;

pub const INFO: PropInfo = PropInfo {
    quick_runs: 40_000,
    thorough_runs: 1_500_000,
    rule: "each run = 1..3 persistent connections carrying 2..12 generated requests each — in one run of twelve 40..300 on the first connection — (one segment per request; the next request after the previous response or, on a third of the connections, sometimes right behind its predecessor; on a quarter of the connections the server's reads are short), plus the same requests alone on fresh connections in the same world; \
           non-trivial = at least two responses were received on one persistent connection; distinct = distinct hash of the full request sequences",
    state_measure: "(position class of Connection: close, presence of malformed request, number of connections) combinations",
    assumptions: &[
        "0..2 misbehaving connections (connection errors of four kinds inside a request line / header / body, before the response is read, a client that never reads) run alongside; nothing is asserted about them except that no task panics other than the documented `Failed to send response` on a dead peer, and that the observed connections are unaffected",
        "each request is delivered as one segment and sent only after the previous response was read (the property's own framing; pipelining and splits are C06)",
        "a malformed request in the middle is smaller than the 1 KiB read buffer, so that one read consumes it",
        "request heads stay below 1 KiB",
    ],
    expected_probes: &["c05.close_honoured", "c05.request_after_close_unanswered", "c05.malformed_in_middle", "c05.ctx_set_then_later_request", "c05.param_then_no_param", "c05.body_over_buffer", "c05.chaos_connection_alongside", "c05.short_reads_on_persistent", "c05.request_sent_before_previous_response", "c05.connection_with_64_or_more_requests", "c05.connection_with_256_or_more_requests", "c05.request_right_behind_close_unanswered"],
};

#[derive(Clone, Debug, Serialize, Deserialize)]
pub struct ConnPlan {
    pub reqs: Vec<ReqItem>,
    pub think_ms: Vec<u64>,
    /// after a `Connection: close` request, still send the next one (it must not be answered)
    pub send_after_close: bool,
    /// fault: the server's reads on the persistent connection return tape-chosen prefixes of what is available
    /// (the fresh reference connections read whole segments)
    #[serde(default)]
    pub short_reads: bool,
    /// nowait[k]: request k+1 is sent right behind request k, without waiting for response k (still one segment per
    /// request; the server may well find both in one read)
    #[serde(default)]
    pub nowait: Vec<bool>,
    /// the request that follows a `Connection: close` request is sent right behind it (same instant), not after its response
    #[serde(default)]
    pub eager_after_close: bool,
}
/// a misbehaving connection running next to the observed ones (fault isolation between sessions)
#[derive(Clone, Debug, Serialize, Deserialize)]
pub struct ChaosPlan {
    pub start_ms: u64,
    /// 0: part of a request, then a connection error; 1: a request, error before the response is read;
    /// 2: announces a body, sends half of it, error; 3: connect and close at once; 4: a request, then the client stops reading and goes away;
    /// 5: no connection — the listener's `accept` fails once
    pub kind: u8,
    /// error kind index (see c02::err_kind)
    pub err: u8,
    pub delay_ms: u64,
}
#[derive(Clone, Debug, Serialize, Deserialize)]
pub struct Scenario {
    pub conns: Vec<ConnPlan>,
    #[serde(default)]
    pub chaos: Vec<ChaosPlan>,
}

#[derive(Default)]
struct ConnObs {
    persist: Vec<Result<Resp, RecvErr>>,
    /// bytes left unparsed in the client buffer right after response k
    stray: Vec<usize>,
    fresh: Vec<Result<Resp, RecvErr>>,
    /// after the last exchange: did the server close, and what else arrived
    closed: Option<(bool, Vec<u8>)>,
    sent_after_close: bool,
    sent_with_close: bool,
}

pub fn generate(_cfg: &RunCfg, _out: &mut Outcome) -> Scenario {
    let n_conns = 1 + t::weighted(&[6, 3, 1]);
    let mut conns = Vec::new();
    for c in 0..n_conns {
        // long histories: what accumulates per connection (slot tables, counters, buffers that only grow) shows late
        let long = c == 0 && t::chance(1, 12);
        let reqs = if long {
            let n = t::pick(&[40usize, 64, 65, 100, 128, 129, 200, 256, 257, 300]);
            sess::gen_sequence(c, &SeqOpts { min: n, max: n, allow_malformed: true, allow_close: false, max_body: 300, allow_delay: false, shapes: true })
        } else {
            sess::gen_sequence(c, &SeqOpts { min: 2, max: if c == 0 { 12 } else { 5 }, allow_malformed: true, allow_close: true, max_body: 3000, allow_delay: true, shapes: true })
        };
        let think_ms = reqs.iter().map(|_| if long { 0 } else { t::pick(&[0u64, 0, 1, 30, 2000]) }).collect();
        let eager = t::chance(1, 3);
        let nowait = reqs.iter().map(|r| eager && r.malformed.is_none() && !r.wants_close() && t::chance(1, 2)).collect();
        conns.push(ConnPlan { reqs, think_ms, send_after_close: t::chance(1, 2), short_reads: t::chance(1, 4), nowait, eager_after_close: t::chance(1, 2) });
    }
    let chaos = (0..t::weighted(&[3, 2, 1])).map(|_| ChaosPlan { start_ms: t::pick(&[0u64, 0, 1, 30, 2000]), kind: t::pick(&[0u8, 1, 2, 2, 3, 4, 5]), err: t::draw(4) as u8, delay_ms: t::pick(&[0u64, 1, 50]) }).collect();
    Scenario { conns, chaos }
}

pub fn run(cfg: &RunCfg, direct: Option<&serde_json::Value>) -> Outcome {
    let mut out = Outcome::new();
    let sc: Scenario = match direct {
        Some(v) => match serde_json::from_value(v.clone()) {
            Ok(s) => s,
            Err(e) => {
                out.verdict = Verdict::Inconclusive(format!("cannot decode scenario: {e}"));
                return out;
            }
        },
        None => generate(cfg, &mut out),
    };
    rt::mark_generated();
    execute(&sc, &mut out);
    out
}

fn aspect_of_difference(p: &Resp, f: &Resp) -> String {
    if p.status != f.status {
        return format!("status-{}-vs-{}", p.status, f.status);
    }
    if p.body != f.body {
        // name the dump aspect that differs
        let (pb, fb) = (p.body_text(), f.body_text());
        let pl: Vec<&str> = pb.lines().collect();
        let fl: Vec<&str> = fb.lines().collect();
        for tag in ["M ", "P ", "I ", "Q ", "H ", "G ", "X ", "B ", "A ", "C "] {
            let a: Vec<&&str> = pl.iter().filter(|l| l.starts_with(tag)).collect();
            let b: Vec<&&str> = fl.iter().filter(|l| l.starts_with(tag)).collect();
            if a != b {
                return format!("dump-{}", tag.trim());
            }
        }
        return "body".into();
    }
    "headers".into()
}

fn execute(sc: &Scenario, out: &mut Outcome) {
    let all: Vec<&ReqItem> = sc.conns.iter().flat_map(|c| c.reqs.iter()).collect();
    sess::configure_dump(&all);
    out.scenario = serde_json::to_value(sc).unwrap_or(serde_json::Value::Null);
    out.scenario_hash = rt::fnv64(serde_json::to_string(sc).unwrap_or_default().as_bytes());

    if sc.conns.iter().any(|c| c.nowait.iter().any(|x| *x)) {
        out.probe("c05.request_sent_before_previous_response");
    }
    if sc.conns.iter().any(|c| c.reqs.len() >= 64) {
        out.probe("c05.connection_with_64_or_more_requests");
    }
    if sc.conns.iter().any(|c| c.reqs.len() >= 256) {
        out.probe("c05.connection_with_256_or_more_requests");
    }
    if sc.conns.iter().any(|c| c.short_reads) {
        out.probe("c05.short_reads_on_persistent");
    }
    rt::serve(sess::build_app());
    let obs: Vec<Rc<RefCell<ConnObs>>> = sc.conns.iter().map(|_| Rc::new(RefCell::new(ConnObs::default()))).collect();
    for (ci, plan) in sc.conns.iter().enumerate() {
        // persistent connection
        let o = obs[ci].clone();
        let p = plan.clone();
        simcore::spawn_task(format!("persist{ci}"), "client", async move {
            let Ok(mut c) = Client::connect(rt::ADDR, ConnCfg { short_reads: p.short_reads, ..ConnCfg::default() }).await else { return };
            let mut k = 0;
            let mut sent = 0;
            while k < p.reqs.len() {
                let it = &p.reqs[k];
                if sent <= k {
                    if p.think_ms[k] > 0 {
                        sleep(p.think_ms[k] * MS).await;
                    }
                    c.send(&it.bytes(), 0);
                    sent = k + 1;
                    if it.wants_close() && p.send_after_close && p.eager_after_close && k + 1 < p.reqs.len() {
                        // the successor is already on the wire when the closing request is handled: it must not be served
                        c.send(&p.reqs[k + 1].bytes(), 0);
                        let mut ob = o.borrow_mut();
                        ob.sent_after_close = true;
                        ob.sent_with_close = true;
                    }
                }
                while sent < p.reqs.len() && p.nowait.get(sent - 1).copied().unwrap_or(false) {
                    c.send(&p.reqs[sent].bytes(), 0);
                    sent += 1;
                    simcore::with(|w| w.count("fault.request_sent_before_previous_response"));
                }
                let r = c.recv(it.is_head(), DEFAULT_TIMEOUT).await;
                let ok = r.is_ok();
                {
                    let mut ob = o.borrow_mut();
                    ob.persist.push(r);
                    // with later requests already on the wire, their responses may legitimately be behind this one
                    ob.stray.push(if sent > k + 1 { 0 } else { c.buf.len() });
                }
                if !ok {
                    return;
                }
                if it.wants_close() {
                    if p.send_after_close && !p.eager_after_close && k + 1 < p.reqs.len() {
                        c.send(&p.reqs[k + 1].bytes(), 0);
                        o.borrow_mut().sent_after_close = true;
                    }
                    let r = c.drain_until_close(DEFAULT_TIMEOUT).await;
                    o.borrow_mut().closed = Some(r);
                    return;
                }
                k += 1;
            }
            c.send_fin(0);
            let r = c.drain_until_close(DEFAULT_TIMEOUT).await;
            o.borrow_mut().closed = Some(r);
        });
        // the same requests, each alone on a fresh connection
        let o = obs[ci].clone();
        let p = plan.clone();
        simcore::spawn_task(format!("fresh{ci}"), "client", async move {
            for it in &p.reqs {
                let Ok(mut c) = Client::connect(rt::ADDR, ConnCfg::default()).await else { return };
                c.send(&it.bytes(), 0);
                let r = c.recv(it.is_head(), DEFAULT_TIMEOUT).await;
                o.borrow_mut().fresh.push(r);
                c.send_fin(0);
                let _ = c.drain_until_close(DEFAULT_TIMEOUT).await;
            }
        });
    }
    for (xi, ch) in sc.chaos.iter().enumerate() {
        let ch = ch.clone();
        simcore::spawn_task(format!("chaos{xi}"), "client", async move {
            if ch.start_ms > 0 {
                sleep(ch.start_ms * MS).await;
            }
            if ch.kind == 5 {
                // not a connection at all: the listener's accept fails (a failing system call); sessions must not notice
                simcore::with(|w| {
                    w.inject_accept_error(rt::ADDR, if ch.err % 2 == 0 { std::io::ErrorKind::ConnectionAborted } else { std::io::ErrorKind::Other });
                });
                return;
            }
            let Ok(mut c) = Client::connect(rt::ADDR, ConnCfg { window: 64, ..ConnCfg::default() }).await else { return };
            let kind = super::c02::err_kind(ch.err);
            simcore::with(|w| w.count("fault.chaos_connection"));
            match ch.kind {
                0 => {
                    c.send(b"POST /p/chaos HTTP/1.1\r\nHost: x\r\nContent-Le", 0);
                    c.send_rst(kind, ch.delay_ms * MS);
                }
                1 => {
                    c.send(b"GET /p/chaos/q/1 HTTP/1.1\r\nHost: x\r\nx-set-ctx: chaos\r\nx-delay-ms: 20\r\n\r\n", 0);
                    c.send_rst(kind, ch.delay_ms * MS);
                }
                2 => {
                    // (sometimes gigabytes are announced: what the server books for an upload that never completes must not
                    // stay booked)
                    let announced = if ch.delay_ms != 0 { 4_294_967_000u64 } else { 2000 }; // just below the 4 GiB limit
                    c.send(format!("POST /p/chaos HTTP/1.1\r\nHost: x\r\nContent-Length: {announced}\r\n\r\nCHAOSCHAOSCHAOS").as_bytes(), 0);
                    c.send_rst(kind, ch.delay_ms * MS);
                }
                3 => {}
                _ => {
                    // a large dump is requested through a tiny window and never read
                    let mut req = b"GET /p/chaos HTTP/1.1\r\nHost: x\r\n".to_vec();
                    for i in 0..12 {
                        req.extend_from_slice(format!("x-marker: chaos-{i}-{}\r\n", "z".repeat(40)).as_bytes());
                    }
                    req.extend_from_slice(b"\r\n");
                    c.send(&req, 0);
                    sleep((1 + ch.delay_ms) * MS).await;
                }
            }
            sleep(ch.delay_ms * MS).await;
            drop(c);
        });
    }
    let end = simcore::run();
    if !sc.chaos.is_empty() {
        out.probe("c05.chaos_connection_alongside");
    }

    // ---- oracle
    let panics = rt::panicked_tasks();
    if let Some((_, _, file, _, msg)) = panics.first() {
        out.violate("no-panic", rt::panic_site(file, msg), format!("a server task panicked at {file}: {msg}"));
        return;
    }
    if matches!(end, simcore::EndReason::StepCap | simcore::EndReason::TimeCap) {
        out.verdict = Verdict::Inconclusive(format!("{end:?}"));
        return;
    }
    let describe = |r: &Result<Resp, RecvErr>| -> String {
        match r {
            Ok(r) => format!("status {}", r.status),
            Err(RecvErr::Closed(p)) => format!("closed after {} bytes", p.len()),
            Err(RecvErr::Reset(_)) => "reset".into(),
            Err(RecvErr::Timeout(p)) => format!("timeout after {} bytes", p.len()),
            Err(RecvErr::Malformed(m, _)) => format!("malformed response: {m}"),
        }
    };
    for (ci, plan) in sc.conns.iter().enumerate() {
        let ob = obs[ci].borrow();
        if ob.persist.len() >= 2 {
            out.nontrivial = true;
        }
        let mut closed_by_server_at: Option<usize> = None;
        for (k, it) in plan.reqs.iter().enumerate() {
            let shown = format!("{:?}", String::from_utf8_lossy(&it.bytes()).chars().take(160).collect::<String>());
            let Some(f) = ob.fresh.get(k) else { break };
            // 3. the fresh baseline against the reference model
            match (f, &it.malformed) {
                (Ok(fr), None) => {
                    let shape = it.spec.headers.iter().find(|(n, _)| n == "x-shape").map(|(_, v)| String::from_utf8_lossy(v).into_owned()).unwrap_or_default();
                    let want = if shape == "204" { 204 } else { 200 };
                    if fr.status != want || fr.header("X-Dump").is_none() {
                        out.violate("fresh-baseline-matches-reference", format!("status-{}", fr.status), format!("conn {ci} request {k} alone on a fresh connection: {}; request={shown}", describe(f)));
                        return;
                    }
                    if !shape.is_empty() {
                        out.probe("c05.response_without_content_length");
                        if fr.header("Content-Length").is_some() {
                            out.violate("fresh-baseline-matches-reference", "length-on-a-lengthless-shape", format!("conn {ci} request {k}: a {shape} response carries Content-Length; request={shown}"));
                            return;
                        }
                        if k + 1 < plan.reqs.len() {
                            out.probe("c05.request_after_response_without_content_length");
                        }
                    }
                    if !it.is_head() && shape != "204" {
                        // the stream shape sends the same lines as events
                        let text = if shape == "stream" { fr.body_text().lines().filter_map(|l| l.strip_prefix("data: ").map(|s| s.to_string())).collect::<Vec<_>>().join("\n") } else { fr.body_text() };
                        if let Some((aspect, msg)) = sess::dump_diff(&text, &it.spec) {
                            out.violate("fresh-baseline-matches-reference", aspect, format!("conn {ci} request {k} alone on a fresh connection: {msg}; request={shown}"));
                            return;
                        }
                    }
                }
                (Err(e), None) => {
                    let kind = match e {
                        RecvErr::Closed(_) => "closed",
                        RecvErr::Reset(_) => "reset",
                        RecvErr::Timeout(_) => "timeout",
                        RecvErr::Malformed(..) => "malformed-response",
                    };
                    out.violate("fresh-baseline-matches-reference", kind, format!("conn {ci} request {k} alone on a fresh connection: {}; request={shown}", describe(f)));
                    return;
                }
                (Ok(fr), Some((kind, _))) => {
                    out.probe("c05.malformed_in_middle");
                    if (200..400).contains(&fr.status) {
                        out.violate("fresh-baseline-matches-reference", format!("accepted-{kind}"), format!("malformed request ({kind}) accepted with {}; request={shown}", fr.status));
                        return;
                    }
                }
                (Err(_), Some(_)) => {}
            }
            // 2. persistent vs fresh
            let Some(p) = ob.persist.get(k) else {
                // the persistent client stopped earlier (after an error or a close): already judged
                break;
            };
            match (p, f) {
                (Ok(pr), Ok(fr)) => {
                    if pr.masked() != fr.masked() {
                        let asp = aspect_of_difference(pr, fr);
                        out.violate(
                            "kth-response-equals-fresh",
                            asp,
                            format!("conn {ci} request {k}: on the persistent connection [{}] alone [{}]; request={shown}", pr.masked().chars().take(700).collect::<String>(), fr.masked().chars().take(700).collect::<String>()),
                        );
                        return;
                    }
                    if ob.stray.get(k).copied().unwrap_or(0) != 0 {
                        out.violate("one-response-per-request", "stray-bytes", format!("conn {ci}: {} unexpected bytes followed response {k}", ob.stray[k]));
                        return;
                    }
                }
                (Err(pe), Ok(_)) => {
                    let kind = match pe {
                        RecvErr::Closed(_) => "closed",
                        RecvErr::Reset(_) => "reset",
                        RecvErr::Timeout(_) => "timeout",
                        RecvErr::Malformed(..) => "malformed-response",
                    };
                    out.violate("kth-response-equals-fresh", format!("no-response-{kind}"), format!("conn {ci} request {k}: alone it is answered ({}), as request #{k} of the connection: {}; request={shown}", describe(f), describe(p)));
                    return;
                }
                (Ok(pr), Err(_)) => {
                    out.violate("kth-response-equals-fresh", "fresh-unanswered", format!("conn {ci} request {k}: answered {} on the persistent connection but {} alone; request={shown}", pr.status, describe(f)));
                    return;
                }
                (Err(_), Err(_)) => {
                    closed_by_server_at = Some(k);
                    break;
                }
            }
            if k > 0 && it.malformed.is_none() {
                let prev = &plan.reqs[k - 1].spec;
                if prev.headers.iter().any(|(n, _)| n == "x-set-ctx") {
                    out.probe("c05.ctx_set_then_later_request");
                }
                if !sess::expected_params(&prev.path).is_empty() && sess::expected_params(&it.spec.path).is_empty() {
                    out.probe("c05.param_then_no_param");
                }
            }
            if it.malformed.is_none() && it.spec.to_bytes().len() > 1024 {
                out.probe("c05.body_over_buffer");
            }
            // 5. Connection: close
            if it.wants_close() {
                match &ob.closed {
                    Some((true, extra)) => {
                        if !extra.is_empty() {
                            out.violate("close-ends-session", "bytes-after-close-response", format!("conn {ci}: {} bytes arrived after the response to `Connection: close` (request {k})", extra.len()));
                            return;
                        }
                        out.probe("c05.close_honoured");
                        if ob.sent_after_close {
                            out.probe("c05.request_after_close_unanswered");
                        }
                        if ob.sent_with_close {
                            out.probe("c05.request_right_behind_close_unanswered");
                        }
                    }
                    Some((false, extra)) => {
                        out.violate(
                            "close-ends-session",
                            if extra.is_empty() { "still-open" } else { "answered-after-close" },
                            format!("conn {ci}: after the response to `Connection: close` (request {k}) the server did not close within 30 s; {} further bytes arrived", extra.len()),
                        );
                        return;
                    }
                    None => {}
                }
                break;
            }
        }
        let _ = closed_by_server_at;
    }
}
