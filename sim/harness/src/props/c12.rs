//! C12 — the JWT fang admits exactly the tokens signed with the configured key and valid now.
//! The wall clock is a fault dimension: every request is verified at a tape-chosen simulated instant.

use super::PropInfo;
use crate::client::{Client, RecvErr, Resp, DEFAULT_TIMEOUT};
use crate::rt::{self, t, Outcome, RunCfg, Verdict};
use base64::engine::{general_purpose::URL_SAFE_NO_PAD, Engine as _};
use ohkami::fang::JWT;
use ohkami::{Ohkami, Request, Response, Route};
use serde::{Deserialize, Serialize};
use serde_json::{json, Value};
use sha2::{Digest, Sha256, Sha384, Sha512};
use simcore::ConnCfg;
use std::cell::RefCell;
use std::rc::Rc;

pub const INFO: PropInfo = PropInfo {
    quick_runs: 40_000,
    thorough_runs: 1_500_000,
    rule: "each run = one JWT configuration (HS256/384/512, generated secret incl. empty and longer than the hash block, fang at the root / on a mount / local to a handler; in a third of the runs a second configuration with another secret and the same or another algorithm guards a second route, and tokens of either are sent to either; token taken from the default place, or via `.get_token_by` from a custom header (then sometimes with a valid decoy token in the default place) or from another scheme) and 2..10 requests on a keep-alive connection (sometimes reconnecting), \
           each with a generated token (issued by the same configuration, built by the reference model with any payload and header, single-character mutations, re-signed with another key or algorithm, alg none/other/missing, typ/cty variants, 1/2/4 parts, wrong signature lengths, other schemes, garbage, missing, or the very same token as an earlier request at an instant on the other side of one of its time claims) \
           and a simulated wall-clock instant chosen around the token's exp/nbf/iat (clock jumps forwards and backwards between requests); non-trivial = at least one token was admitted and one refused; distinct = distinct hash of (configuration, tokens, instants)",
    state_measure: "(token kind, verdict of the model, relation of now to the time claims) combinations",
    assumptions: &[
        "a time claim that is not a JSON number is open (only robustness is checked)",
        "another letter case of the scheme name (`bearer`) is grey: checked only in the direction 'if the handler ran, the token is valid'",
        "payload objects carry no duplicate keys",
        "HMAC is implemented independently (ipad/opad construction) on top of the sha2 crate's compression functions; SHA-2 itself is trusted and cross-checked against Python's hashlib once per batch",
    ],
    expected_probes: &["c12.issued_token_admitted", "c12.expired_refused", "c12.exp_boundary", "c12.nbf_boundary", "c12.clock_jump_backwards", "c12.mutation_refused", "c12.other_key_refused", "c12.alg_none_refused", "c12.four_parts", "c12.fractional_time_claim", "c12.previous_payload_not_leaked", "c12.options_bypass", "c12.custom_token_source", "c12.decoy_in_default_place", "c12.same_token_again_other_verdict", "c12.two_configurations", "c12.token_of_the_other_realm_refused", "c12.stacked_configurations", "c12.stacked_outer_admits_inner_refuses"],
};

#[derive(Clone, Debug, Serialize, Deserialize)]
pub struct Req {
    pub method: String,
    /// raw Authorization header value; None = header absent
    pub authorization: Option<String>,
    pub kind: String,
    /// wall clock (unix seconds) while this request is handled
    pub now: u64,
    pub reconnect_before: bool,
    /// with a customised token source: a VALID token sent in the default place, which must not count
    #[serde(default)]
    pub decoy: Option<String>,
    /// which protected realm the request goes to: 0 `/api/me`, 1 `/api2/me` (second configuration, if any)
    #[serde(default)]
    pub realm: u8,
    /// stacked configuration only: the raw `X-Token` value for the inner fang (None = header absent)
    #[serde(default)]
    pub inner: Option<String>,
    /// (wave 14) just before this request, on the same connection, a request that carries this VALID token (no time claims)
    /// of the realm it goes to, but is refused by the parser (a header value that is not UTF-8, behind the token's
    /// line): nothing of it may still be there when this request is judged
    #[serde(default)]
    pub after_refused: Option<String>,
}
#[derive(Clone, Debug, Serialize, Deserialize)]
pub struct Scenario {
    pub alg: u16,
    pub secret: String,
    /// 0 root fang, 1 fang of a mounted Ohkami, 2 local fang
    pub placement: u8,
    pub reqs: Vec<Req>,
    /// 0 default (`Authorization: Bearer <t>`), 1 `.get_token_by` reading the custom header `X-Token: <t>`, 2 `.get_token_by` with the scheme `Token`
    #[serde(default)]
    pub token_source: u8,
    /// a second JWT configuration (same or another algorithm, another secret) guarding `/api2/me` in the same application
    #[serde(default)]
    pub second: Option<SecondCfg>,
    /// the second configuration does not guard a route of its own but sits INSIDE the first one on the same route
    /// (outer fang: `Authorization: Bearer`, inner fang: `X-Token`, same payload type): the handler runs iff both admit
    #[serde(default)]
    pub stacked: bool,
}
#[derive(Clone, Debug, Serialize, Deserialize)]
pub struct SecondCfg {
    pub alg: u16,
    pub secret: String,
}

// ---- independent token model ----------------------------------------------------------------------

fn hash(alg: u16, data: &[u8]) -> Vec<u8> {
    match alg {
        256 => Sha256::digest(data).to_vec(),
        384 => Sha384::digest(data).to_vec(),
        _ => Sha512::digest(data).to_vec(),
    }
}
pub fn hmac(alg: u16, key: &[u8], msg: &[u8]) -> Vec<u8> {
    let block = if alg == 256 { 64 } else { 128 };
    let mut k = if key.len() > block { hash(alg, key) } else { key.to_vec() };
    k.resize(block, 0);
    let mut inner: Vec<u8> = k.iter().map(|b| b ^ 0x36).collect();
    inner.extend_from_slice(msg);
    let ih = hash(alg, &inner);
    let mut outer: Vec<u8> = k.iter().map(|b| b ^ 0x5c).collect();
    outer.extend_from_slice(&ih);
    hash(alg, &outer)
}
fn b64(data: &[u8]) -> String {
    URL_SAFE_NO_PAD.encode(data)
}
/// strict base64url without padding and without stray trailing bits
fn unb64(s: &str) -> Option<Vec<u8>> {
    if !s.bytes().all(|b| b.is_ascii_alphanumeric() || b == b'-' || b == b'_') {
        return None;
    }
    if s.len() % 4 == 1 {
        return None;
    }
    let val = |c: u8| -> u32 {
        match c {
            b'A'..=b'Z' => (c - b'A') as u32,
            b'a'..=b'z' => (c - b'a') as u32 + 26,
            b'0'..=b'9' => (c - b'0') as u32 + 52,
            b'-' => 62,
            _ => 63,
        }
    };
    let mut out = Vec::new();
    let b = s.as_bytes();
    for chunk in b.chunks(4) {
        let mut acc: u32 = 0;
        for (i, c) in chunk.iter().enumerate() {
            acc |= val(*c) << (18 - 6 * i);
        }
        match chunk.len() {
            4 => out.extend_from_slice(&[(acc >> 16) as u8, (acc >> 8) as u8, acc as u8]),
            3 => {
                if acc & 0xff != 0 {
                    return None;
                }
                out.extend_from_slice(&[(acc >> 16) as u8, (acc >> 8) as u8]);
            }
            2 => {
                if acc & 0xffff != 0 {
                    return None;
                }
                out.push((acc >> 16) as u8);
            }
            _ => return None,
        }
    }
    Some(out)
}

pub fn sign(alg: u16, secret: &str, header: &str, payload: &str) -> String {
    let unsigned = format!("{}.{}", b64(header.as_bytes()), b64(payload.as_bytes()));
    let sig = hmac(alg, secret.as_bytes(), unsigned.as_bytes());
    format!("{unsigned}.{}", b64(&sig))
}

#[derive(Debug, PartialEq)]
pub enum Judgement {
    /// the handler must run and see this payload
    Admit(Value),
    Refuse(&'static str),
    /// the statement leaves it open (non-numeric time claim): only robustness
    Open,
}

pub fn judge(alg: u16, secret: &str, authorization: Option<&str>, now: u64) -> Judgement {
    let Some(a) = authorization else { return Judgement::Refuse("no header") };
    let Some(token) = a.strip_prefix("Bearer ") else { return Judgement::Refuse("not the Bearer scheme") };
    judge_token(alg, secret, token, now)
}

/// what goes on the wire for a request under a token source: (header lines, the token the configured source yields)
pub fn wire(token_source: u8, r: &Req) -> (String, Option<String>) {
    match token_source {
        1 => {
            let mut lines = String::new();
            if let Some(d) = &r.decoy {
                lines.push_str(&format!("Authorization: Bearer {d}\r\n"));
            }
            match &r.authorization {
                Some(a) => {
                    let v = a.strip_prefix("Bearer ").unwrap_or(a);
                    lines.push_str(&format!("X-Token: {v}\r\n"));
                    (lines, Some(v.to_string()))
                }
                None => (lines, None),
            }
        }
        2 => match &r.authorization {
            Some(a) => {
                // swap the two schemes: what was a Bearer token is now a `Token` one and vice versa
                let v = if let Some(rest) = a.strip_prefix("Bearer ") {
                    format!("Token {rest}")
                } else if let Some(rest) = a.strip_prefix("Token ") {
                    format!("Bearer {rest}")
                } else {
                    a.clone()
                };
                (format!("Authorization: {v}\r\n"), v.strip_prefix("Token ").map(|s| s.to_string()))
            }
            None => (String::new(), None),
        },
        _ => match &r.authorization {
            Some(a) => (format!("Authorization: {a}\r\n"), a.strip_prefix("Bearer ").map(|s| s.to_string())),
            None => (String::new(), None),
        },
    }
}

pub fn judge_token(alg: u16, secret: &str, token: &str, now: u64) -> Judgement {
    let parts: Vec<&str> = token.split('.').collect();
    if parts.len() != 3 {
        return Judgement::Refuse("not three parts");
    }
    let (Some(h), Some(p), Some(s)) = (unb64(parts[0]), unb64(parts[1]), unb64(parts[2])) else { return Judgement::Refuse("not base64url") };
    let Ok(header) = serde_json::from_slice::<Value>(&h) else { return Judgement::Refuse("header not JSON") };
    let alg_name = format!("HS{alg}");
    if header.get("alg").and_then(|v| v.as_str()) != Some(alg_name.as_str()) {
        return Judgement::Refuse("alg differs");
    }
    for k in ["typ", "cty"] {
        if let Some(v) = header.get(k) {
            if !v.as_str().map(|s| s.eq_ignore_ascii_case("JWT")).unwrap_or(false) {
                return Judgement::Refuse("typ/cty");
            }
        }
    }
    if s != hmac(alg, secret.as_bytes(), format!("{}.{}", parts[0], parts[1]).as_bytes()) {
        return Judgement::Refuse("signature");
    }
    let Ok(payload) = serde_json::from_slice::<Value>(&p) else { return Judgement::Refuse("payload not JSON") };
    let nowf = now as f64;
    // a numeric claim that does not admit the current time refuses the token, however a malformed claim next to it is read
    // (ignored, or taken for a reason to refuse): only when every numeric claim admits is a non-numeric one left open
    let mut open = false;
    for (claim, ok) in [("nbf", (|c: f64, n: f64| c <= n) as fn(f64, f64) -> bool), ("iat", |c, n| c <= n), ("exp", |c, n| n < c)] {
        if let Some(v) = payload.get(claim) {
            match v.as_f64() {
                Some(c) => {
                    if !ok(c, nowf) {
                        return Judgement::Refuse("time claims");
                    }
                }
                None => open = true,
            }
        }
    }
    if open {
        return Judgement::Open;
    }
    Judgement::Admit(payload)
}

// ---- generation ----------------------------------------------------------------------------------

const B64URL: &[u8] = b"ABCDEFGHIJKLMNOPQRSTUVWXYZabcdefghijklmnopqrstuvwxyz0123456789-_";

fn gen_payload(now: u64) -> (String, &'static str) {
    // returns (payload JSON text, time relation label)
    let base = json!({"sub": t::string(b"abcxyz019", 1, 8), "n": t::range(0, 1000)});
    let mut obj = base.as_object().unwrap().clone();
    let rel = match t::weighted(&[3, 2, 2, 2, 2, 2, 1, 1, 1]) {
        0 => "no-time-claims",
        1 => {
            obj.insert("exp".into(), json!(now + t::pick(&[1u64, 2, 60, 3600])));
            "valid-exp-future"
        }
        2 => {
            obj.insert("exp".into(), json!(now - t::pick(&[0u64, 1, 60]).min(now)));
            "expired-or-at-exp"
        }
        3 => {
            obj.insert("nbf".into(), json!(now + t::pick(&[0u64, 1, 60])));
            "nbf-now-or-future"
        }
        4 => {
            obj.insert("iat".into(), json!(now.saturating_sub(t::pick(&[0u64, 1, 100]))));
            obj.insert("exp".into(), json!(now + 100));
            "iat-past"
        }
        5 => {
            obj.insert("iat".into(), json!(now + t::pick(&[1u64, 60])));
            "iat-future"
        }
        6 => {
            // fractional NumericDates (RFC 7519 allows them)
            let (k, v) = t::pick(&[("exp", -0.5f64), ("exp", 0.5), ("nbf", 0.5), ("nbf", -0.5), ("exp", -1000.25), ("iat", 3.5)]);
            obj.insert(k.into(), json!(now as f64 + v));
            "fractional"
        }
        7 => {
            let (k, v) = t::pick(&[("exp", json!(-1)), ("exp", json!(-100.5)), ("nbf", json!(-1)), ("exp", json!(1e30)), ("nbf", json!(1e30))]);
            obj.insert(k.into(), v);
            "negative-or-huge"
        }
        _ => {
            let (k, v) = t::pick(&[("exp", json!("tomorrow")), ("nbf", json!(null)), ("exp", json!([1])), ("iat", json!(true))]);
            obj.insert(k.into(), v);
            // (wave 16) ... next to a numeric claim on another key, which refuses or admits by itself
            if t::chance(2, 3) {
                let others: Vec<(&str, Value)> = vec![("exp", json!(now.saturating_sub(t::pick(&[1u64, 60, 3600])))), ("nbf", json!(now + t::pick(&[1u64, 60]))), ("iat", json!(now + 60)), ("exp", json!(now + 3600)), ("nbf", json!(now.saturating_sub(5)))];
                let (k2, v2) = t::pick(&others.into_iter().filter(|(k2, _)| *k2 != k).collect::<Vec<_>>());
                obj.insert(k2.into(), v2);
            }
            "non-numeric"
        }
    };
    (Value::Object(obj).to_string(), rel)
}

fn header_json(alg: u16) -> String {
    match t::weighted(&[5, 1, 1, 1, 1]) {
        0 => format!("{{\"typ\":\"JWT\",\"alg\":\"HS{alg}\"}}"),
        1 => format!("{{\"alg\":\"HS{alg}\"}}"),
        2 => format!("{{\"alg\":\"HS{alg}\",\"typ\":\"jwt\"}}"),
        3 => format!("{{\"alg\":\"HS{alg}\",\"cty\":\"JWT\",\"kid\":\"k1\"}}"),
        _ => format!("{{ \"alg\" : \"HS{alg}\" }}"),
    }
}

fn gen_req(sc_alg: u16, secret: &str, now_base: u64, issue: &dyn Fn(&Value) -> String) -> Req {
    let now = now_base;
    let (payload, rel) = gen_payload(now);
    let valid = sign(sc_alg, secret, &header_json(sc_alg), &payload);
    let (kind, auth): (String, Option<String>) = match t::weighted(&[6, 4, 4, 2, 2, 2, 2, 2, 1, 1, 1]) {
        0 => (format!("model-signed/{rel}"), Some(format!("Bearer {valid}"))),
        1 => {
            let v: Value = serde_json::from_str(&payload).unwrap();
            (format!("issued/{rel}"), Some(format!("Bearer {}", issue(&v))))
        }
        2 => {
            // single-character mutation
            let mut b = valid.clone().into_bytes();
            // anywhere, or (often) the last character of one of the three parts: its spare low bits are where a
            // lenient decoder accepts what a strict one refuses
            let ends: Vec<usize> = valid.char_indices().filter(|(_, c)| *c == '.').map(|(i, _)| i - 1).chain(std::iter::once(valid.len() - 1)).collect();
            let i = if t::chance(1, 3) { t::pick(&ends) } else { t::draw(b.len() as u32) as usize };
            let mut c = t::pick(B64URL);
            if t::chance(1, 8) {
                c = t::pick(&[b'.', b'=', b' ', b'+', b'/']);
            }
            if b[i] == c {
                c = if c == b'A' { b'B' } else { b'A' };
            }
            b[i] = c;
            ("mutated".into(), Some(format!("Bearer {}", String::from_utf8_lossy(&b))))
        }
        3 => {
            let other = format!("{secret}x");
            ("other-key".into(), Some(format!("Bearer {}", sign(sc_alg, &other, &header_json(sc_alg), &payload))))
        }
        4 => {
            let other_alg = t::pick(&[256u16, 384, 512].into_iter().filter(|a| *a != sc_alg).collect::<Vec<_>>());
            // signed correctly under the other algorithm, header names the other or (forged) the configured one
            let hdr = if t::chance(1, 2) { format!("{{\"typ\":\"JWT\",\"alg\":\"HS{other_alg}\"}}") } else { format!("{{\"typ\":\"JWT\",\"alg\":\"HS{sc_alg}\"}}") };
            ("other-alg".into(), Some(format!("Bearer {}", sign(other_alg, secret, &hdr, &payload))))
        }
        5 => {
            let hdr = t::pick(&["{\"alg\":\"none\"}", "{\"typ\":\"JWT\"}", "{\"alg\":\"RS256\"}", "{\"alg\":\"hs256\"}", "[]", "{\"alg\":null}", "{\"alg\":\"HS256\",\"typ\":\"JWE\"}", "{\"alg\":\"HS256\",\"cty\":\"x\"}"]);
            let tok = if hdr.contains("none") && t::chance(1, 2) { format!("{}.{}.", b64(hdr.as_bytes()), b64(payload.as_bytes())) } else { sign(sc_alg, secret, hdr, &payload) };
            ("alg-header-variant".into(), Some(format!("Bearer {tok}")))
        }
        6 => {
            let parts: Vec<&str> = valid.split('.').collect();
            let tok = match t::draw(5) {
                0 => parts[0].to_string(),
                1 => format!("{}.{}", parts[0], parts[1]),
                2 => format!("{valid}.{}", t::pick(&["", "x", "AAAA"])),
                3 => format!("{}..{}", parts[0], parts[2]),
                _ => format!(".{}.{}", parts[1], parts[2]),
            };
            ("part-count".into(), Some(format!("Bearer {tok}")))
        }
        7 => {
            let parts: Vec<&str> = valid.split('.').collect();
            let sig = parts[2];
            let s2 = match t::draw(6) {
                4 => format!("{sig}="),
                5 => format!("{sig}=="),
                0 => sig[..sig.len() - 1].to_string(),
                1 => sig[..sig.len() / 2].to_string(),
                2 => format!("{sig}A"),
                _ => String::new(),
            };
            ("signature-length".into(), Some(format!("Bearer {}.{}.{s2}", parts[0], parts[1])))
        }
        8 => ("other-scheme".into(), Some(t::pick(&[format!("Basic {valid}"), format!("bearer {valid}"), format!("Bearer  {valid}"), format!("Bearer{valid}"), valid.clone(), format!("Token {valid}")]))),
        9 => ("garbage".into(), Some(format!("Bearer {}", t::pick(&["", "x", "a.b.c", "....", "e30.e30.e30", "\u{e9}"])))),
        _ => ("missing".into(), None),
    };
    let method = if t::chance(1, 12) { "OPTIONS" } else if t::chance(1, 4) { "POST" } else { "GET" };
    Req { method: method.into(), authorization: auth, kind, now, reconnect_before: t::chance(1, 6), decoy: None, realm: 0, inner: None, after_refused: None }
}

fn make_jwt(alg: u16, secret: &str) -> JWT<Value> {
    let s = secret.to_string();
    match alg {
        256 => JWT::new_256(s),
        384 => JWT::new_384(s),
        _ => JWT::new_512(s),
    }
}

pub fn generate(_cfg: &RunCfg, _out: &mut Outcome) -> Scenario {
    let alg = t::pick(&[256u16, 384, 512]);
    let secret = match t::weighted(&[5, 1, 1, 1]) {
        0 => t::string(b"abcdefXYZ0123456789-_", 1, 40),
        1 => String::new(),
        2 => "k".repeat(t::pick(&[63usize, 64, 65, 127, 128, 129, 200])),
        _ => format!("s\u{e9}cret-{}", t::string(b"abc", 0, 5)),
    };
    let n = t::range(2, 10) as usize;
    let mut now = t::pick(&[1_700_000_000u64, 1_000, 4_102_444_800, 1_516_239_022]);
    let mut reqs: Vec<Req> = Vec::new();
    let jwt = make_jwt(alg, &secret);
    let issue = |v: &Value| -> String { jwt.clone().issue(v.clone()).to_string() };
    // two configurations in one process: whatever a verification remembers must not leak from one to the other
    let second = if t::chance(1, 3) {
        Some(SecondCfg { alg: if t::chance(2, 3) { alg } else { t::pick(&[256u16, 384, 512]) }, secret: format!("{}{}", t::pick(&["other-", "2", "Z"]), t::string(b"abcdef0123", 0, 12)) })
    } else {
        None
    };
    let jwt2 = second.as_ref().map(|s2| make_jwt(s2.alg, &s2.secret));
    let issue2 = |v: &Value| -> String { jwt2.clone().map(|j| j.issue(v.clone()).to_string()).unwrap_or_default() };
    for _ in 0..n {
        // clock jumps between requests: forwards, backwards, not at all
        now = match t::weighted(&[4, 2, 2, 1]) {
            0 => now,
            1 => now + t::pick(&[1u64, 59, 3600, 86_400 * 400]),
            2 => now.saturating_sub(t::pick(&[1u64, 60, 86_400])),
            _ => t::range(1_000, 4_000_000_000),
        };
        // the very same token again, at an instant on the other side of one of its time claims (a verdict is a function
        // of (token, now), never of what was decided for the token before)
        if !reqs.is_empty() && t::chance(1, 5) {
            let prev: Req = reqs[t::draw(reqs.len() as u32) as usize].clone();
            let claims: Vec<u64> = prev
                .authorization
                .as_deref()
                .and_then(|a| a.split(' ').nth(1))
                .and_then(|tk| tk.split('.').nth(1))
                .and_then(unb64)
                .and_then(|p| serde_json::from_slice::<Value>(&p).ok())
                .map(|v| ["exp", "nbf", "iat"].iter().filter_map(|k| v.get(*k).and_then(|c| c.as_f64())).filter(|c| *c >= 1.0 && *c < 4.0e9).map(|c| c as u64).collect())
                .unwrap_or_default();
            let again_at = if !claims.is_empty() && t::chance(3, 4) {
                let c = t::pick(&claims);
                match t::draw(4) {
                    0 => c.saturating_sub(1),
                    1 => c,
                    2 => c + 1,
                    _ => c + 3600,
                }
            } else {
                now
            };
            now = again_at;
            let rel = prev.kind.split('/').nth(1).unwrap_or("").to_string();
            reqs.push(Req { kind: format!("same-token-again/{rel}"), now, reconnect_before: t::chance(1, 6), ..prev });
            continue;
        }
        match &second {
            Some(s2) => {
                let realm = t::draw(2) as u8;
                // mostly a token of the realm it is sent to, sometimes one of the other realm
                let signed_by = if t::chance(1, 4) { 1 - realm } else { realm };
                let mut r = if signed_by == 0 { gen_req(alg, &secret, now, &issue) } else { gen_req(s2.alg, &s2.secret, now, &issue2) };
                r.realm = realm;
                if signed_by != realm {
                    r.kind = format!("other-realm:{}", r.kind);
                }
                reqs.push(r);
            }
            None => reqs.push(gen_req(alg, &secret, now, &issue)),
        }
    }
    let placement = t::draw(3) as u8;
    let token_source = t::weighted(&[3, 1, 1]) as u8;
    if token_source == 1 {
        for r in reqs.iter_mut() {
            if t::chance(1, 2) {
                r.decoy = Some(issue(&json!({"sub": "decoy"})));
            }
        }
    }
    let placement = if second.is_some() && placement == 0 { 1 } else { placement };
    let stacked = second.is_some() && t::chance(1, 3);
    let token_source = if stacked { 0 } else { token_source };
    if let (true, Some(s2)) = (stacked, &second) {
        for r in reqs.iter_mut() {
            // the outer token is one of the first configuration (whatever kind was generated for it) ...
            if r.kind.starts_with("other-realm:") {
                *r = gen_req(alg, &secret, r.now, &issue);
            }
            r.realm = 0;
            r.decoy = None;
            // ... the inner one is generated for the second configuration, valid more often than not
            let inner = if t::chance(1, 2) {
                let v: Value = json!({"sub": "inner", "n": t::range(0, 1000)});
                Some(issue2(&v))
            } else {
                gen_req(s2.alg, &s2.secret, r.now, &issue2).authorization.map(|a| a.strip_prefix("Bearer ").unwrap_or(&a).trim_matches([' ', '\t']).to_string())
            };
            r.inner = inner.filter(|x| !x.is_empty());
        }
    }
    if !stacked {
        for r in reqs.iter_mut() {
            if t::chance(1, 6) {
                let v = json!({"sub": "left-behind", "n": t::range(0, 1000)});
                r.after_refused = Some(if r.realm == 1 && second.is_some() { issue2(&v) } else { issue(&v) });
                r.reconnect_before = false;
            }
        }
    }
    Scenario { alg, secret, placement, reqs, token_source, second, stacked }
}

pub fn run(cfg: &RunCfg, direct: Option<&serde_json::Value>) -> Outcome {
    let mut out = Outcome::new();
    let sc: Scenario = match direct {
        Some(v) => match serde_json::from_value(v.clone()) {
            Ok(s) => s,
            Err(e) => {
                out.verdict = Verdict::Inconclusive(format!("cannot decode scenario: {e}"));
                return out;
            }
        },
        None => generate(cfg, &mut out),
    };
    rt::mark_generated();
    execute(&sc, &mut out);
    out
}

fn me(req: &Request) -> Response {
    let body = match req.context.get::<Value>() {
        Some(v) => v.to_string(),
        None => "<no payload in context>".to_string(),
    };
    Response::OK().with_text(body).with_headers(|h| h.x("X-Me", "1"))
}

fn execute(sc: &Scenario, out: &mut Outcome) {
    out.scenario = serde_json::to_value(sc).unwrap_or(Value::Null);
    out.scenario_hash = rt::fnv64(serde_json::to_string(sc).unwrap_or_default().as_bytes());
    let jwt = make_jwt(sc.alg, &sc.secret);
    fn from_x_token(req: &Request) -> Option<&str> {
        req.headers.get("x-token")
    }
    fn from_token_scheme(req: &Request) -> Option<&str> {
        req.headers.Authorization()?.strip_prefix("Token ")
    }
    let jwt = match sc.token_source {
        1 => jwt.get_token_by(from_x_token),
        2 => jwt.get_token_by(from_token_scheme),
        _ => jwt,
    };
    let token_source = sc.token_source;
    let h = |req: &Request| {
        let r = me(req);
        async move { r }
    };
    let jwt2 = sc.second.as_ref().map(|s2| {
        let j = make_jwt(s2.alg, &s2.secret);
        match sc.token_source {
            1 => j.get_token_by(from_x_token),
            2 => j.get_token_by(from_token_scheme),
            _ => j,
        }
    });
    let app = match (if sc.stacked { 9 } else { sc.placement }, jwt2) {
        (9, Some(j2)) => {
            out.probe("c12.stacked_configurations");
            Ohkami::new((jwt, "/api".By(Ohkami::new((j2.get_token_by(from_x_token), "/me".GET(h).POST(h))))))
        }
        (0, _) => Ohkami::new((jwt, "/api/me".GET(h).POST(h))),
        (1, None) => Ohkami::new(("/open".GET(|| async { "open" }), "/api".By(Ohkami::new((jwt, "/me".GET(h).POST(h)))))),
        (_, None) => Ohkami::new(("/open".GET(|| async { "open" }), "/api/me".GET((jwt.clone(), h)).POST((jwt, h)))),
        (1, Some(j2)) => Ohkami::new(("/open".GET(|| async { "open" }), "/api".By(Ohkami::new((jwt, "/me".GET(h).POST(h)))), "/api2".By(Ohkami::new((j2, "/me".GET(h).POST(h)))))),
        (_, Some(j2)) => Ohkami::new(("/open".GET(|| async { "open" }), "/api/me".GET((jwt.clone(), h)).POST((jwt, h)), "/api2/me".GET((j2.clone(), h)).POST((j2, h)))),
    };
    if sc.second.is_some() {
        out.probe("c12.two_configurations");
    }
    rt::serve(app);
    let obs: Rc<RefCell<Vec<Result<Resp, RecvErr>>>> = Rc::new(RefCell::new(Vec::new()));
    let o = obs.clone();
    let reqs = sc.reqs.clone();
    simcore::spawn_task("client", "client", async move {
        let mut c: Option<Client> = None;
        for r in &reqs {
            if r.reconnect_before {
                if let Some(mut old) = c.take() {
                    old.send_fin(0);
                    let _ = old.drain_until_close(DEFAULT_TIMEOUT).await;
                }
            }
            if c.is_none() {
                match Client::connect(rt::ADDR, ConnCfg::default()).await {
                    Ok(x) => c = Some(x),
                    Err(_) => return,
                }
            }
            // clock fault: the wall clock is whatever the scenario says while this request is handled
            simcore::with(|w| {
                w.wall_frozen = Some(r.now);
                w.count("fault.clock_jump");
            });
            if let Some(tok) = &r.after_refused {
                let cl = c.as_mut().unwrap();
                let tmp = Req { authorization: Some(format!("Bearer {tok}")), decoy: None, inner: None, after_refused: None, ..r.clone() };
                let (auth, _) = wire(token_source, &tmp);
                let mut bytes = format!("GET {} HTTP/1.1\r\nHost: s\r\n{auth}X-Client-Name: caf", if r.realm == 1 { "/api2/me" } else { "/api/me" }).into_bytes();
                bytes.extend_from_slice(b"\xe9\r\n\r\n");
                if bytes.len() < 1000 {
                    cl.send(&bytes, 0);
                    simcore::with(|w| w.count("c12.refused_request_with_a_valid_token_first"));
                    if cl.recv(false, DEFAULT_TIMEOUT).await.is_err() {
                        c = None;
                    }
                }
                if c.is_none() {
                    match Client::connect(rt::ADDR, ConnCfg::default()).await {
                        Ok(x) => c = Some(x),
                        Err(_) => return,
                    }
                }
            }
            let cl = c.as_mut().unwrap();
            let (mut auth, _) = wire(token_source, r);
            if let Some(x) = &r.inner {
                auth.push_str(&format!("X-Token: {x}\r\n"));
            }
            cl.send(format!("{} {} HTTP/1.1\r\nHost: s\r\n{auth}\r\n", r.method, if r.realm == 1 { "/api2/me" } else { "/api/me" }).as_bytes(), 0);
            let resp = cl.recv(false, DEFAULT_TIMEOUT).await;
            let ok = resp.is_ok();
            o.borrow_mut().push(resp);
            if !ok {
                c = None;
            }
        }
        if let Some(mut old) = c.take() {
            old.send_fin(0);
            let _ = old.drain_until_close(DEFAULT_TIMEOUT).await;
        }
    });
    let end = simcore::run();

    let panics = rt::panicked_tasks();
    if let Some((_, _, file, _, msg)) = panics.first() {
        out.violate("no-panic", rt::panic_site(file, msg), format!("a server task panicked at {file}: {msg}"));
        return;
    }
    if matches!(end, simcore::EndReason::StepCap | simcore::EndReason::TimeCap) {
        out.verdict = Verdict::Inconclusive(format!("{end:?}"));
        return;
    }
    let obs = obs.borrow();
    let (mut admitted, mut refused) = (0, 0);
    let mut prev_now: Option<u64> = None;
    let mut prev_admitted_payload: Option<Value> = None;
    for (k, r) in sc.reqs.iter().enumerate() {
        let Some(resp) = obs.get(k) else { break };
        let kind0 = r.kind.split('/').next().unwrap_or("").to_string();
        let (wire_lines, token) = wire(sc.token_source, r);
        // the configuration guarding the realm this request went to
        let (r_alg, r_secret): (u16, &str) = match (&sc.second, r.realm) {
            (Some(s2), 1) => (s2.alg, s2.secret.as_str()),
            _ => (sc.alg, sc.secret.as_str()),
        };
        let j = match &token {
            // whether blanks around a header value belong to it is not C12's business: open when it matters
            Some(tk) if sc.token_source == 1 && tk.trim_matches([' ', '\t']) != tk => {
                match (judge_token(r_alg, r_secret, tk.trim_matches([' ', '\t']), r.now), judge_token(r_alg, r_secret, tk, r.now)) {
                    (Judgement::Refuse(a), Judgement::Refuse(_)) => Judgement::Refuse(a),
                    _ => Judgement::Open,
                }
            }
            Some(tk) => judge_token(r_alg, r_secret, tk, r.now),
            None => Judgement::Refuse("no token where the configuration looks"),
        };
        // stacked: the inner configuration decides as well, and its payload is what the handler observes
        let j = if sc.stacked {
            let inner_j = match (&sc.second, &r.inner) {
                (Some(s2), Some(x)) => judge_token(s2.alg, &s2.secret, x, r.now),
                _ => Judgement::Refuse("no inner token"),
            };
            if matches!(j, Judgement::Admit(_)) && matches!(inner_j, Judgement::Refuse(_)) {
                out.probe("c12.stacked_outer_admits_inner_refuses");
            }
            match (j, inner_j) {
                (Judgement::Refuse(w), _) => Judgement::Refuse(w),
                (_, Judgement::Refuse(w)) => Judgement::Refuse(w),
                (Judgement::Open, _) | (_, Judgement::Open) => Judgement::Open,
                (Judgement::Admit(_), Judgement::Admit(p)) => Judgement::Admit(p),
            }
        } else {
            j
        };
        if sc.token_source != 0 {
            out.probe("c12.custom_token_source");
            if r.decoy.is_some() {
                out.probe("c12.decoy_in_default_place");
            }
        }
        let desc = format!("request {k} ({}; now={}; realm {} guarded by HS{} with secret {:?}; token source {}; {} {:?})", r.kind, r.now, r.realm, r_alg, r_secret.chars().take(24).collect::<String>(), sc.token_source, r.method, wire_lines.chars().take(260).collect::<String>());
        let resp = match resp {
            Ok(x) => x,
            Err(e) => {
                out.violate("answered", format!("{kind0}/no-response"), format!("{desc}: {}", format!("{e:?}").chars().take(100).collect::<String>()));
                return;
            }
        };
        if let Some(p) = prev_now {
            if r.now < p {
                out.probe("c12.clock_jump_backwards");
            }
        }
        prev_now = Some(r.now);
        let ran = resp.header("X-Me").is_some();
        let rel = r.kind.split('/').nth(1).unwrap_or("");
        if kind0 == "same-token-again" {
            // did the model decide differently for an earlier presentation of this token?
            let mine = matches!(j, Judgement::Admit(_));
            let earlier_differs = sc.reqs[..k].iter().any(|e| {
                e.authorization == r.authorization && e.realm == r.realm && {
                    let (_, tk) = wire(sc.token_source, e);
                    tk.map(|tk| matches!(judge_token(r_alg, r_secret, &tk, e.now), Judgement::Admit(_)) != mine).unwrap_or(false)
                }
            });
            if earlier_differs {
                out.probe("c12.same_token_again_other_verdict");
            }
        }
        out.states.push(format!("{kind0}|{}|{rel}", match &j { Judgement::Admit(_) => "admit", Judgement::Refuse(_) => "refuse", Judgement::Open => "open" }));
        if r.method == "OPTIONS" {
            // documented bypass: 200 without running the handler
            if ran {
                out.violate("options-bypass", "handler-ran", format!("{desc}: the handler ran for OPTIONS"));
                return;
            }
            out.probe("c12.options_bypass");
            continue;
        }
        let grey_scheme = r.kind == "other-scheme" && sc.token_source != 1 && wire_lines.to_ascii_lowercase().contains(if sc.token_source == 2 { "authorization: token " } else { "authorization: bearer " });
        match (&j, ran) {
            (Judgement::Admit(p), true) => {
                let echoed: Result<Value, _> = serde_json::from_str(&resp.body_text());
                if echoed.as_ref().ok() != Some(p) {
                    out.violate("payload-observed", kind0.clone(), format!("{desc}: signed payload {p} but the handler observed {:?}", resp.body_text().chars().take(200).collect::<String>()));
                    return;
                }
                admitted += 1;
                if r.kind.starts_with("issued") {
                    out.probe("c12.issued_token_admitted");
                }
                if rel == "fractional" || rel == "negative-or-huge" {
                    out.probe("c12.fractional_time_claim");
                }
                if let Some(pp) = &prev_admitted_payload {
                    if pp != p {
                        out.probe("c12.previous_payload_not_leaked");
                    }
                }
                prev_admitted_payload = Some(p.clone());
            }
            (Judgement::Admit(_), false) => {
                out.violate("valid-token-admitted", format!("{kind0}/{rel}/status-{}", resp.status), format!("{desc}: a valid token was refused with {}", resp.status));
                return;
            }
            (Judgement::Refuse(why), true) => {
                if grey_scheme {
                    continue;
                }
                out.violate("invalid-token-refused", format!("{kind0}/{}", why.replace(' ', "-")), format!("{desc}: must be refused ({why}) but the handler ran and saw {:?}", resp.body_text().chars().take(120).collect::<String>()));
                return;
            }
            (Judgement::Refuse(why), false) => {
                if resp.status < 400 {
                    out.violate("invalid-token-refused", format!("{kind0}/status-{}", resp.status), format!("{desc}: refused without an error status ({})", resp.status));
                    return;
                }
                refused += 1;
                match kind0.as_str() {
                    "mutated" => out.probe("c12.mutation_refused"),
                    "other-key" => out.probe("c12.other_key_refused"),
                    k if k.starts_with("other-realm:") => out.probe("c12.token_of_the_other_realm_refused"),
                    "alg-header-variant" => out.probe("c12.alg_none_refused"),
                    "part-count" => out.probe("c12.four_parts"),
                    _ => {}
                }
                if *why == "time claims" {
                    out.probe("c12.expired_refused");
                    if rel == "expired-or-at-exp" {
                        out.probe("c12.exp_boundary");
                    }
                    if rel == "nbf-now-or-future" {
                        out.probe("c12.nbf_boundary");
                    }
                    if rel == "fractional" || rel == "negative-or-huge" {
                        out.probe("c12.fractional_time_claim");
                    }
                }
            }
            (Judgement::Open, _) => {}
        }
    }
    out.nontrivial = admitted > 0 && refused > 0;
}
