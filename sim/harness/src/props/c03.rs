//! C03 — responses on the wire are well-formed and never overrun their buffer.
//! A handler (and a fang's `back`) interpret a generated operation script against a `Response`;
//! the bytes the simulated client receives are parsed independently and compared with a header-map model.

use super::PropInfo;
use crate::client::{Client, Framing, RecvErr, Resp, DEFAULT_TIMEOUT};
use crate::rt::{self, t, Outcome, RunCfg, Verdict};
use ohkami::header::append;
use ohkami::{Ohkami, Response, Route, Status};
use serde::{Deserialize, Serialize};
use simcore::{ConnCfg, MS};
use std::borrow::Cow;
use std::cell::RefCell;
use std::collections::BTreeMap;
use std::rc::Rc;

pub const INFO: PropInfo = PropInfo {
    quick_runs: 60_000,
    thorough_runs: 2_500_000,
    rule: "each run = one generated operation script (status, set/append/remove/re-set of the standard and custom headers, Set-Cookie, text/html/json/raw payloads, drop_content, stream; part of it in a fang's back action) \
           executed by a handler of the real server and fetched with GET or HEAD over a simulated socket with short writes / back-pressure, followed by a second request on the same connection; \
           non-trivial = a complete response was received; distinct = distinct hash of (script, method, socket behaviour)",
    state_measure: "(status class, content kind, method, ops-bucket) combinations",
    assumptions: &[
        "header values contain no CR/LF/NUL (injecting those is outside the API contract)",
        "custom header names are distinct from the standard names and from each other, case-insensitively",
        "scripts do not write the framing headers Content-Length / Transfer-Encoding / Connection directly (user's responsibility by the comment at response/mod.rs:151)",
        "1xx and 304 statuses are generated only without content",
    ],
    expected_probes: &["c03.remove_then_set", "c03.short_write_fired", "c03.backpressure_fired", "c03.head_request", "c03.status_204", "c03.stream", "c03.drop_content", "c03.many_cycles", "c03.cookie", "c03.second_request_answered", "c03.status_changed_after_content", "c03.stream_then_204", "c03.from_into_response", "c03.reader_stalls_for_seconds", "c03.other_responses_sent_before"],
};

pub const STD: [&str; 47] = [
    "Accept-Ranges", "Access-Control-Allow-Credentials", "Access-Control-Allow-Headers", "Access-Control-Allow-Methods", "Access-Control-Allow-Origin", "Access-Control-Expose-Headers",
    "Access-Control-Max-Age", "Age", "Allow", "Alt-Svc", "Cache-Control", "Cache-Status", "CDN-Cache-Control", "Connection", "Content-Disposition", "Content-Encoding", "Content-Language",
    "Content-Length", "Content-Location", "Content-Range", "Content-Security-Policy", "Content-Security-Policy-Report-Only", "Content-Type", "Cross-Origin-Embedder-Policy",
    "Cross-Origin-Resource-Policy", "Date", "ETag", "Expires", "Link", "Location", "Proxy-Authenticate", "Referrer-Policy", "Refresh", "Retry-After", "Sec-WebSocket-Accept",
    "Sec-WebSocket-Protocol", "Sec-WebSocket-Version", "Server", "Strict-Transport-Security", "Trailer", "Transfer-Encoding", "Upgrade", "Vary", "Via", "X-Content-Type-Options",
    "X-Frame-Options", "WWW-Authenticate",
];
/// indices of the framing headers scripts never write directly
const FRAMING: [usize; 3] = [13, 17, 40];
pub const CUSTOM: [&str; 8] = ["X-Trace-Id", "X-Powered-By", "Foo", "x-lower", "X-A", "Server-Timing", "X-Very-Long-Custom-Header-Name-For-Size-Accounting", "Priority"];
const COOKIE_NAMES: [&str; 4] = ["id", "session", "a", "theme"];
const PAYLOAD_CT: [&str; 4] = ["application/octet-stream", "image/png", "text/csv", "application/xml"];

#[derive(Clone, Debug, Serialize, Deserialize, PartialEq)]
pub enum Act {
    Set(String),
    Append(String),
    Remove,
}

#[derive(Clone, Debug, Serialize, Deserialize, PartialEq)]
pub enum Op {
    Std(usize, Act),
    Custom(usize, Act),
    Cookie { name: usize, value: String, max_age: Option<u64>, path: Option<String>, domain: Option<String>, secure: bool, http_only: bool, same_site: u8, expires: Option<String> },
    Text(String),
    Html(String),
    Json(String),
    Payload(usize, #[serde(with = "crate::rt::hexser")] Vec<u8>),
    DropContent,
    Stream(Vec<String>),
    SetStatus(u16),
}

#[derive(Clone, Debug, Serialize, Deserialize)]
pub struct Scenario {
    pub status: u16,
    pub handler_ops: Vec<Op>,
    pub back_ops: Vec<Op>,
    pub head: bool,
    pub short_writes: bool,
    pub window: usize,
    pub read_max: usize,
    pub read_pause_ms: u64,
    /// the reader stops reading once, for this many ms, after having received this many bytes (long back-pressure)
    #[serde(default)]
    pub stall: Option<(usize, u64)>,
    /// wall clock at the start (seconds)
    pub wall: u64,
    /// Some(k): the handler's response starts as `IntoResponse::into_response` of a value of kind k instead of `Response::new(status)`
    #[serde(default)]
    pub first: Option<u8>,
    /// other responses sent on the same connection (same thread) BEFORE the scripted one: 1 = a small one, 2 = a small one
    /// and one of 9000 bytes. What the serializer keeps from one response to the next (buffers, sizes) must not show.
    #[serde(default)]
    pub warmup: u8,
    /// Some(k): the reader's stall outlasts the session's own time-out while the response is still on its way (k = 0 the
    /// scripted response, 1 the 9000-byte one). The session may be cut there; what arrived must be a prefix of the response
    #[serde(default)]
    pub overlong: Option<u8>,
}

/// (the response, its status, its content: (content type, bytes)) for `first` kind k
fn first_response(k: u8) -> (Response, u16, Option<(&'static str, Vec<u8>)>) {
    use ohkami::format::JSON;
    use ohkami::typed::status::{Created, Forbidden};
    use ohkami::IntoResponse;
    match k {
        0 => ("static text".into_response(), 200, Some(("text/plain; charset=UTF-8", b"static text".to_vec()))),
        1 => (String::from("owned caf\u{e9}").into_response(), 200, Some(("text/plain; charset=UTF-8", "owned caf\u{e9}".as_bytes().to_vec()))),
        2 => (JSON(serde_json::json!({"a": [1, 2], "b": null})).into_response(), 200, Some(("application/json", serde_json::to_vec(&serde_json::json!({"a": [1, 2], "b": null})).unwrap()))),
        3 => (Status::NoContent.into_response(), 204, None),
        4 => (Created(JSON(serde_json::json!({"id": 7}))).into_response(), 201, Some(("application/json", b"{\"id\":7}".to_vec()))),
        5 => (Result::<&'static str, Forbidden<&'static str>>::Err(Forbidden("no")).into_response(), 403, Some(("text/plain; charset=UTF-8", b"no".to_vec()))),
        6 => (Result::<String, Response>::Ok(String::new()).into_response(), 200, Some(("text/plain; charset=UTF-8", Vec::new()))),
        _ => (Created(()).into_response(), 201, None),
    }
}

thread_local! {
    static SCRIPT: RefCell<Option<Scenario>> = const { RefCell::new(None) };
    static STRAY: std::cell::Cell<usize> = const { std::cell::Cell::new(0) };
}

macro_rules! std_setters {
    ($res:ident, $idx:expr, $act:expr; $( ($i:literal, $name:ident) ),* ) => {
        match ($idx, $act) {
            $(
                ($i, Act::Set(v)) => { $res.headers.set().$name(v.clone()); }
                ($i, Act::Append(v)) => { $res.headers.set().$name(append(v.clone())); }
                ($i, Act::Remove) => { $res.headers.set().$name(None::<Cow<'static, str>>); }
            )*
            _ => {}
        }
    };
}

struct VecStream(std::collections::VecDeque<String>);
impl ohkami::util::Stream for VecStream {
    type Item = String;
    fn poll_next(mut self: std::pin::Pin<&mut Self>, _cx: &mut std::task::Context<'_>) -> std::task::Poll<Option<String>> {
        std::task::Poll::Ready(self.0.pop_front())
    }
}

pub fn apply(res: &mut Response, op: &Op) {
    match op {
        Op::Std(i, act) => {
            std_setters!(res, *i, act;
                (0, AcceptRanges), (1, AccessControlAllowCredentials), (2, AccessControlAllowHeaders), (3, AccessControlAllowMethods), (4, AccessControlAllowOrigin), (5, AccessControlExposeHeaders), (6, AccessControlMaxAge), (7, Age), (8, Allow), (9, AltSvc), (10, CacheControl), (11, CacheStatus), (12, CDNCacheControl), (13, Connection), (14, ContentDisposition), (15, ContentEncoding), (16, ContentLanguage), (17, ContentLength), (18, ContentLocation), (19, ContentRange), (20, ContentSecurityPolicy), (21, ContentSecurityPolicyReportOnly), (22, ContentType), (23, CrossOriginEmbedderPolicy), (24, CrossOriginResourcePolicy), (25, Date), (26, ETag), (27, Expires), (28, Link), (29, Location), (30, ProxyAuthenticate), (31, ReferrerPolicy), (32, Refresh), (33, RetryAfter), (34, SecWebSocketAccept), (35, SecWebSocketProtocol), (36, SecWebSocketVersion), (37, Server), (38, StrictTransportSecurity), (39, Trailer), (40, TransferEncoding), (41, Upgrade), (42, Vary), (43, Via), (44, XContentTypeOptions), (45, XFrameOptions), (46, WWWAuthenticate)
            );
        }
        Op::Custom(i, act) => {
            let name = CUSTOM[*i % CUSTOM.len()];
            match act {
                Act::Set(v) => {
                    res.headers.set().x(name, v.clone());
                }
                Act::Append(v) => {
                    res.headers.set().x(name, append(v.clone()));
                }
                Act::Remove => {
                    res.headers.set().x(name, None::<Cow<'static, str>>);
                }
            }
        }
        Op::Cookie { name, value, max_age, path, domain, secure, http_only, same_site, expires } => {
            let (max_age, path, domain, secure, http_only, same_site, expires) = (*max_age, path.clone(), domain.clone(), *secure, *http_only, *same_site, expires.clone());
            res.headers.set().SetCookie(COOKIE_NAMES[*name % COOKIE_NAMES.len()], value.clone(), move |mut d| {
                if let Some(e) = expires {
                    d = d.Expires(e);
                }
                if let Some(m) = max_age {
                    d = d.MaxAge(m);
                }
                if let Some(dm) = domain {
                    d = d.Domain(dm);
                }
                if let Some(p) = path {
                    d = d.Path(p);
                }
                if secure {
                    d = d.Secure();
                }
                if http_only {
                    d = d.HttpOnly();
                }
                match same_site {
                    1 => d.SameSiteLax(),
                    2 => d.SameSiteNone(),
                    3 => d.SameSiteStrict(),
                    _ => d,
                }
            });
        }
        Op::Text(s) => res.set_text(s.clone()),
        Op::Html(s) => res.set_html(s.clone()),
        Op::Json(s) => res.set_json(serde_json::from_str::<serde_json::Value>(s).unwrap_or(serde_json::Value::Null)),
        Op::Payload(ct, b) => res.set_payload(PAYLOAD_CT[*ct % PAYLOAD_CT.len()], b.clone()),
        Op::DropContent => {
            let _ = res.drop_content();
        }
        Op::Stream(msgs) => res.set_stream(VecStream(msgs.iter().cloned().collect())),
        Op::SetStatus(c) => res.status = Status::from(*c),
    }
}

// ---- the model (DESIGN.md A.2) ------------------------------------------------------------------

#[derive(Clone, Debug, PartialEq)]
pub enum Body {
    None,
    Bytes(Vec<u8>),
    Stream(Vec<String>),
}
pub struct Model {
    pub status: u16,
    /// lower-cased name -> value
    pub live: BTreeMap<String, String>,
    pub cookies: Vec<Op>,
    pub body: Body,
    pub date_is_default: bool,
}
impl Model {
    pub fn new(status: u16, date: String) -> Self {
        let mut live = BTreeMap::new();
        live.insert("date".to_string(), date);
        live.insert("content-length".to_string(), "0".to_string());
        Model { status, live, cookies: Vec::new(), body: Body::None, date_is_default: true }
    }
    fn act(&mut self, name: &str, act: &Act) {
        let n = name.to_ascii_lowercase();
        if n == "date" {
            self.date_is_default = false;
        }
        match act {
            Act::Set(v) => {
                self.live.insert(n, v.clone());
            }
            Act::Append(v) => {
                let nv = match self.live.get(&n) {
                    Some(old) => format!("{old}, {v}"),
                    None => v.clone(),
                };
                self.live.insert(n, nv);
            }
            Act::Remove => {
                self.live.remove(&n);
            }
        }
    }
    pub fn apply(&mut self, op: &Op) {
        match op {
            Op::Std(i, a) => self.act(STD[*i], a),
            Op::Custom(i, a) => self.act(CUSTOM[*i % CUSTOM.len()], a),
            Op::Cookie { .. } => self.cookies.push(op.clone()),
            Op::Text(s) => {
                self.body = Body::Bytes(s.clone().into_bytes());
                self.live.insert("content-type".into(), "text/plain; charset=UTF-8".into());
                self.live.insert("content-length".into(), s.len().to_string());
            }
            Op::Html(s) => {
                self.body = Body::Bytes(s.clone().into_bytes());
                self.live.insert("content-type".into(), "text/html; charset=UTF-8".into());
                self.live.insert("content-length".into(), s.len().to_string());
            }
            Op::Json(s) => {
                let v: serde_json::Value = serde_json::from_str(s).unwrap_or(serde_json::Value::Null);
                let b = serde_json::to_vec(&v).unwrap();
                self.live.insert("content-type".into(), "application/json".into());
                self.live.insert("content-length".into(), b.len().to_string());
                self.body = Body::Bytes(b);
            }
            Op::Payload(ct, b) => {
                self.live.insert("content-type".into(), PAYLOAD_CT[*ct % PAYLOAD_CT.len()].into());
                self.live.insert("content-length".into(), b.len().to_string());
                self.body = Body::Bytes(b.clone());
            }
            Op::DropContent => {
                self.body = Body::None;
                self.live.remove("content-type");
                self.live.remove("content-length");
            }
            Op::Stream(m) => {
                self.body = Body::Stream(m.clone());
                self.live.remove("content-length");
                self.live.insert("content-type".into(), "text/event-stream".into());
                self.live.insert("cache-control".into(), "no-cache, must-revalidate".into());
                self.live.insert("transfer-encoding".into(), "chunked".into());
            }
            Op::SetStatus(c) => self.status = *c,
        }
    }
}

pub fn imf_fixdate(secs: u64) -> String {
    let days = (secs / 86400) as i64;
    let sod = secs % 86400;
    // civil from days (era of 400 years)
    let z = days + 719_468;
    let era = z.div_euclid(146_097);
    let doe = z.rem_euclid(146_097);
    let yoe = (doe - doe / 1460 + doe / 36_524 - doe / 146_096) / 365;
    let y = yoe + era * 400;
    let doy = doe - (365 * yoe + yoe / 4 - yoe / 100);
    let mp = (5 * doy + 2) / 153;
    let d = doy - (153 * mp + 2) / 5 + 1;
    let m = if mp < 10 { mp + 3 } else { mp - 9 };
    let y = if m <= 2 { y + 1 } else { y };
    let wd = (4 + days).rem_euclid(7) as usize;
    const WD: [&str; 7] = ["Sun", "Mon", "Tue", "Wed", "Thu", "Fri", "Sat"];
    const MO: [&str; 12] = ["Jan", "Feb", "Mar", "Apr", "May", "Jun", "Jul", "Aug", "Sep", "Oct", "Nov", "Dec"];
    format!("{}, {:02} {} {:04} {:02}:{:02}:{:02} GMT", WD[wd], d, MO[(m - 1) as usize], y, sod / 3600, (sod / 60) % 60, sod % 60)
}

// ---- generation ---------------------------------------------------------------------------------

const VAL: &[u8] = b"abcXYZ019 ;=,/*.-_:()\"'!#$%&+<>?@[]^`{|}~";

fn gen_val() -> String {
    let s = match t::weighted(&[6, 2, 1, 1]) {
        0 => t::string(VAL, 1, 20),
        1 => t::string(VAL, 0, 3),
        2 => t::string(VAL, 200, 2000),
        _ => format!("{}é日本{}", t::string(VAL, 0, 5), t::string(VAL, 0, 5)),
    };
    s.trim().to_string()
}

fn gen_act() -> Act {
    match t::weighted(&[5, 2, 3]) {
        0 => Act::Set(gen_val()),
        1 => Act::Append(gen_val()),
        _ => Act::Remove,
    }
}

fn gen_content_op(allow_stream: bool) -> Op {
    match t::weighted(&[4, 2, 2, 2, 2, if allow_stream { 2 } else { 0 }]) {
        0 => Op::Text(match t::draw(3) {
            0 => t::string(VAL, 0, 40),
            // (wave 17: also the lengths at which the decimal rendering of the length gains a digit)
            1 => "x".repeat(t::len_near(&[0, 1, 10, 100, 1000, 4096, 10_000, 65_536, 70_000], 80_000)),
            _ => format!("{}é€😀", t::string(VAL, 0, 10)),
        }),
        1 => Op::Html(format!("<p>{}</p>", t::string(b"abc <>&", 0, 30))),
        2 => Op::Json(t::pick(&["{\"a\":1}", "[]", "null", "{\"k\":\"v\u{e9}\",\"n\":[1,2,3]}", "\"str\"", "12345"]).to_string()),
        3 => Op::Payload(t::draw(4) as usize, if t::chance(1, 4) { vec![b'p'; t::len_near(&[9, 10, 99, 100, 101, 999, 1000], 1100)] } else { t::bytes(0, 300) }),
        4 => Op::DropContent,
        _ => {
            let n = t::range(0, 4) as usize;
            Op::Stream((0..n).map(|_| t::string(b"abc xyz\n", 0, 30)).collect())
        }
    }
}

fn gen_ops(n: usize, cycles_ok: bool, allow_content: bool, allow_stream: bool) -> Vec<Op> {
    let mut ops = Vec::new();
    // a small working set of headers makes set/remove/re-set collisions likely
    let k = 1 + t::draw(5) as usize;
    let stds: Vec<usize> = (0..k)
        .map(|_| loop {
            let i = t::draw(47) as usize;
            if !FRAMING.contains(&i) {
                break i;
            }
        })
        .collect();
    let customs: Vec<usize> = (0..1 + t::draw(3) as usize).map(|_| t::draw(CUSTOM.len() as u32) as usize).collect();
    for _ in 0..n {
        match t::weighted(&[6, 3, 2, if allow_content { 3 } else { 0 }, if cycles_ok { 1 } else { 0 }]) {
            0 => ops.push(Op::Std(t::pick(&stds), gen_act())),
            1 => ops.push(Op::Custom(t::pick(&customs), gen_act())),
            2 => ops.push(Op::Cookie {
                name: t::draw(4) as usize,
                value: match t::draw(3) {
                    0 => t::string(b"abc019", 0, 12),
                    1 => format!("{} ;,=é", t::string(b"abc", 0, 4)),
                    _ => t::string(VAL, 0, 30),
                },
                max_age: if t::chance(1, 3) { Some(t::pick(&[0u64, 1, 3600, u64::MAX])) } else { None },
                path: if t::chance(1, 3) { Some(t::pick(&["/", "/a/b"]).to_string()) } else { None },
                domain: if t::chance(1, 4) { Some("example.com".to_string()) } else { None },
                secure: t::chance(1, 3),
                http_only: t::chance(1, 3),
                same_site: t::draw(4) as u8,
                expires: if t::chance(1, 5) { Some("Wed, 21 Oct 2015 07:28:00 GMT".to_string()) } else { None },
            }),
            3 => ops.push(gen_content_op(allow_stream)),
            _ => {
                // many remove-then-set cycles on one header: reaches the u8 slot index of the header map
                let h = t::pick(&stds);
                let cycles = t::pick(&[3usize, 40, 130, 300]);
                for c in 0..cycles {
                    ops.push(Op::Std(h, Act::Remove));
                    ops.push(Op::Std(h, Act::Set(format!("c{c}"))));
                }
            }
        }
    }
    ops
}

pub fn generate(_cfg: &RunCfg, _out: &mut Outcome) -> Scenario {
    let status: u16 = match t::weighted(&[5, 2, 2, 2, 1, 1]) {
        0 => 200,
        1 => t::pick(&[201u16, 202, 203, 205, 206, 207, 208, 226]),
        2 => 204,
        3 => t::pick(&[400u16, 401, 403, 404, 409, 418, 422, 429, 500, 502, 503]),
        4 => t::pick(&[301u16, 302, 303, 307, 308, 300]),
        _ => 304,
    };
    let bodyless = status == 304;
    let n = t::weighted(&[1, 3, 3, 3, 2, 2, 1, 1]);
    let mut handler_ops = gen_ops(n, true, !bodyless, !bodyless);
    let nb = t::weighted(&[4, 2, 2, 1]);
    let has_stream = handler_ops.iter().any(|o| matches!(o, Op::Stream(_)));
    let mut back_ops = gen_ops(nb, false, !bodyless && !has_stream && t::chance(1, 3), false);
    // the status may also be changed after the content was set (by the handler, or by a fang on the way out)
    if !bodyless && t::chance(1, 5) {
        let st = t::pick(&[204u16, 204, 200, 201, 404, 500]);
        if t::chance(1, 2) || has_stream {
            let at = t::range(0, handler_ops.len() as u64) as usize;
            handler_ops.insert(at, Op::SetStatus(st));
        } else {
            back_ops.push(Op::SetStatus(st));
        }
    }
    let window = t::pick(&[1usize << 30, 1 << 30, 4096, 256, 17]);
    let read_max = t::pick(&[1usize << 16, 1 << 16, 100, 7]);
    let mut read_pause_ms = t::pick(&[0u64, 0, 1, 50]);
    // keep the planned transfer time far below the keep-alive timeout (it bounds the whole session, and
    // no listed property says what happens at or after it)
    let biggest: usize = handler_ops
        .iter()
        .chain(back_ops.iter())
        .map(|o| match o {
            Op::Text(s) | Op::Html(s) | Op::Json(s) => s.len(),
            Op::Payload(_, b) => b.len(),
            Op::Std(_, Act::Set(v) | Act::Append(v)) | Op::Custom(_, Act::Set(v) | Act::Append(v)) => v.len(),
            _ => 40,
        })
        .sum::<usize>()
        + 400;
    // one long stall of the reader, with a window small enough for the server's write to pend meanwhile
    let (stall, window) = if t::chance(1, 10) { (Some((t::pick(&[0usize, 20, 200, 2000]), t::pick(&[5_500u64, 7_000, 12_000]))), t::pick(&[17usize, 64, 300])) } else { (None, window) };
    if (biggest / read_max.min(window).max(1)) as u64 * read_pause_ms > if stall.is_some() { 6_000 } else { 10_000 } {
        read_pause_ms = 0;
    }
    // the stall may outlast the session's time-out (42 s): the response is then cut, never spliced
    let overlong = if stall.is_some() && t::chance(1, 2) { Some(t::draw(2) as u8) } else { None };
    let stall = match (overlong, stall) {
        (Some(_), Some((a, _))) => Some((a.min(200), t::pick(&[43_000u64, 50_000, 70_000]))),
        (_, s) => s,
    };
    Scenario {
        overlong,
        stall,
        status,
        handler_ops,
        back_ops,
        head: t::chance(1, 4),
        short_writes: t::chance(1, 3),
        window,
        read_max,
        read_pause_ms,
        first: if !bodyless && t::chance(1, 5) { Some(t::draw(8) as u8) } else { None },
        warmup: t::weighted(&[3, 2, 1]) as u8,
        wall: match t::draw(4) {
            0 => 1_700_000_000,
            1 => t::range(0, 253_402_300_799),
            2 => t::pick(&[0u64, 951_782_400, 4_102_444_799, 253_402_300_799 - 200]),
            _ => 1_700_000_000 + t::range(0, 100_000_000),
        },
    }
}

pub fn run(cfg: &RunCfg, direct: Option<&serde_json::Value>) -> Outcome {
    let mut out = Outcome::new();
    let sc: Scenario = match direct {
        Some(v) => match serde_json::from_value(v.clone()) {
            Ok(s) => s,
            Err(e) => {
                out.verdict = Verdict::Inconclusive(format!("cannot decode scenario: {e}"));
                return out;
            }
        },
        None => generate(cfg, &mut out),
    };
    rt::mark_generated();
    execute(&sc, &mut out);
    out
}

#[derive(Clone)]
struct ScriptBack;
impl ohkami::fang::FangAction for ScriptBack {
    fn back<'a>(&'a self, res: &'a mut Response) -> impl std::future::Future<Output = ()> + Send {
        SCRIPT.with(|s| {
            if let Some(sc) = s.borrow().as_ref() {
                // only the scripted route carries the marker header
                if res.headers.get("X-Scripted").is_some() {
                    for op in &sc.back_ops {
                        apply(res, op);
                    }
                }
            }
        });
        async {}
    }
}

async fn scripted() -> Response {
    SCRIPT.with(|s| {
        let b = s.borrow();
        let sc = b.as_ref().expect("script installed");
        let mut res = match sc.first {
            Some(k) => first_response(k).0,
            None => Response::new(Status::from(sc.status)),
        };
        res.headers.set().x("X-Scripted", "1");
        for op in &sc.handler_ops {
            apply(&mut res, op);
        }
        res
    })
}
async fn ping() -> &'static str {
    "pong"
}

fn hazards(sc: &Scenario, out: &mut Outcome) {
    // remove followed (later) by a set/append of the same header
    let all: Vec<&Op> = sc.handler_ops.iter().chain(sc.back_ops.iter()).collect();
    let mut removed: Vec<String> = Vec::new();
    let mut implicit_cl_ct_removed = false;
    for op in &all {
        match op {
            Op::Std(i, Act::Remove) => removed.push(STD[*i].to_string()),
            Op::Std(i, _) if removed.contains(&STD[*i].to_string()) => {
                out.hazard("std-remove-then-set");
                out.probe("c03.remove_then_set");
            }
            Op::DropContent | Op::Stream(_) => implicit_cl_ct_removed = true,
            Op::Text(_) | Op::Html(_) | Op::Json(_) | Op::Payload(..) if implicit_cl_ct_removed => {
                out.hazard("std-remove-then-set");
                out.probe("c03.remove_then_set");
            }
            _ => {}
        }
    }
    if all.iter().any(|o| matches!(o, Op::Std(15, Act::Set(_) | Act::Append(_)))) {
        out.hazard("content-encoding-name");
    }
    if all.len() > 200 {
        out.probe("c03.many_cycles");
    }
}

/// the value of `Date` is the one thing that may differ between two deliveries of the same response
fn mask_date(v: &[u8]) -> Vec<u8> {
    let mut o = v.to_vec();
    if let Some(p) = crate::client::find(&o, b"\r\nDate: ") {
        let from = p + 8;
        let to = (from + 29).min(o.len());
        for b in &mut o[from..to] {
            *b = b'X';
        }
    }
    o
}

/// the server is already running; the reader of one connection stalls beyond the session's time-out with the response
/// still on its way. Reference: the same request on another connection that reads at once
fn execute_overlong(sc: &Scenario, which: u8, out: &mut Outcome) {
    out.probe("c03.reader_stalls_beyond_the_session_timeout");
    let obs: Rc<RefCell<(Option<Vec<u8>>, Option<(bool, Vec<u8>)>)>> = Rc::new(RefCell::new((None, None)));
    let o2 = obs.clone();
    let (head, short_writes, window, read_max) = (sc.head, sc.short_writes, sc.window, sc.read_max);
    let stall = sc.stall;
    simcore::spawn_task("client", "client", async move {
        let req = format!("{} {} HTTP/1.1\r\nHost: sim\r\n\r\n", if head { "HEAD" } else { "GET" }, if which == 1 { "/big" } else { "/r" });
        let Ok(mut r) = Client::connect(rt::ADDR, ConnCfg::default()).await else { return };
        r.send(req.as_bytes(), 0);
        match r.recv(head, DEFAULT_TIMEOUT).await {
            Ok(resp) if resp.framing != Framing::Undetermined => o2.borrow_mut().0 = Some(resp.raw.clone()),
            _ => return,
        }
        r.send_fin(0);
        let cfg = ConnCfg { short_writes, window, ..ConnCfg::default() };
        let Ok(mut c) = Client::connect(rt::ADDR, cfg).await else { return };
        c.send(req.as_bytes(), 0);
        c.stall = stall.map(|(a, ms)| (a, ms * MS));
        let got = match c.recv_paced(head, DEFAULT_TIMEOUT, read_max, 0).await {
            Ok(resp) => (true, resp.raw.clone()),
            Err(RecvErr::Closed(b) | RecvErr::Reset(b) | RecvErr::Timeout(b) | RecvErr::Malformed(_, b)) => (false, b),
        };
        o2.borrow_mut().1 = Some(got);
        c.send_fin(0);
    });
    let end = simcore::run();
    let panics = rt::panicked_tasks();
    if let Some((_, _, file, _, msg)) = panics.first() {
        out.violate("no-panic", rt::panic_site(file, msg), format!("a server task panicked at {file}: {msg}"));
        return;
    }
    if matches!(end, simcore::EndReason::StepCap | simcore::EndReason::TimeCap) {
        out.verdict = Verdict::Inconclusive(format!("{end:?}"));
        return;
    }
    let obs = obs.borrow();
    let (Some(full), Some((complete, got))) = (&obs.0, &obs.1) else {
        // the reference exchange itself failed: the ordinary scenarios report that
        out.verdict = Verdict::Inconclusive("no reference response".into());
        return;
    };
    out.nontrivial = true;
    let (f, g) = (mask_date(full), mask_date(got));
    if *complete && f == g {
        out.probe("c03.response_complete_before_the_session_timeout");
        return;
    }
    if !f.starts_with(&g) || (*complete && f != g) {
        let at = f.iter().zip(g.iter()).position(|(a, b)| a != b).unwrap_or(f.len().min(g.len()));
        out.violate(
            "cut-not-spliced",
            if g.len() > f.len() { "more-bytes-than-the-response" } else { "other-bytes-inside-the-response" },
            format!(
                "a reader that stalled for {} s got {} bytes; the same response read at once has {} bytes; they differ from byte {at}: got {:?}, response has {:?}",
                stall.map(|s| s.1 / 1000).unwrap_or(0),
                g.len(),
                f.len(),
                String::from_utf8_lossy(&g[at..g.len().min(at + 60)]),
                String::from_utf8_lossy(&f[at.min(f.len())..f.len().min(at + 60)])
            ),
        );
        return;
    }
    out.probe("c03.response_cut_at_the_session_timeout");
}

fn execute(sc: &Scenario, out: &mut Outcome) {
    out.scenario = serde_json::to_value(sc).unwrap_or(serde_json::Value::Null);
    out.scenario_hash = rt::fnv64(serde_json::to_string(sc).unwrap_or_default().as_bytes());
    hazards(sc, out);
    SCRIPT.with(|s| *s.borrow_mut() = Some(sc.clone()));
    STRAY.with(|s| s.set(0));
    simcore::with(|w| {
        w.wall_base = sc.wall;
        w.wall_offset = 0;
    });
    let date_at_start = imf_fixdate(simcore::with(|w| w.wall_secs()));

    // the model
    let mut m = Model::new(sc.status, date_at_start.clone());
    if let Some(k) = sc.first {
        let (_, st, content) = first_response(k);
        m.status = st;
        if let Some((ct, bytes)) = content {
            m.live.insert("content-type".into(), ct.into());
            m.live.insert("content-length".into(), bytes.len().to_string());
            m.body = Body::Bytes(bytes);
        }
        out.probe("c03.from_into_response");
    }
    m.live.insert("x-scripted".into(), "1".into());
    for op in sc.handler_ops.iter().chain(sc.back_ops.iter()) {
        m.apply(op);
    }
    if sc.head {
        out.probe("c03.head_request");
    }
    if m.status == 204 {
        out.probe("c03.status_204");
        if sc.handler_ops.iter().any(|o| matches!(o, Op::Stream(_))) {
            out.probe("c03.stream_then_204");
        }
    }
    if sc.handler_ops.iter().chain(sc.back_ops.iter()).any(|o| matches!(o, Op::SetStatus(_))) {
        out.probe("c03.status_changed_after_content");
    }
    if matches!(m.body, Body::Stream(_)) {
        out.probe("c03.stream");
    }
    if sc.handler_ops.iter().chain(sc.back_ops.iter()).any(|o| matches!(o, Op::DropContent)) {
        out.probe("c03.drop_content");
    }
    if !m.cookies.is_empty() {
        out.probe("c03.cookie");
    }
    // drop_content as the LAST content operation
    if m.body == Body::None && sc.handler_ops.iter().chain(sc.back_ops.iter()).any(|o| matches!(o, Op::DropContent)) {
        out.hazard("content-dropped-no-length");
    }
    out.states.push(format!(
        "{}xx|{}|{}|ops{}",
        m.status / 100,
        match m.body {
            Body::None => "none",
            Body::Bytes(_) => "bytes",
            Body::Stream(_) => "stream",
        },
        if sc.head { "HEAD" } else { "GET" },
        (sc.handler_ops.len() + sc.back_ops.len()).min(9)
    ));

    let app = Ohkami::new((ScriptBack, "/r".GET(scripted), "/ping".GET(ping), "/big".GET(|| async { "B".repeat(9000) })));
    rt::serve(app);
    if let Some(which) = sc.overlong {
        execute_overlong(sc, which, out);
        return;
    }
    let obs: Rc<RefCell<(Option<Result<Resp, RecvErr>>, Option<Result<Resp, RecvErr>>)>> = Rc::new(RefCell::new((None, None)));
    let o2 = obs.clone();
    let (head, short_writes, window, read_max, pause) = (sc.head, sc.short_writes, sc.window, sc.read_max, sc.read_pause_ms);
    let stall = sc.stall;
    let warmup = sc.warmup;
    if warmup > 0 {
        out.probe("c03.other_responses_sent_before");
    }
    if stall.is_some() {
        out.probe("c03.reader_stalls_for_seconds");
    }
    simcore::spawn_task("client", "client", async move {
        let cfg = ConnCfg { short_writes, window, ..ConnCfg::default() };
        let Ok(mut c) = Client::connect(rt::ADDR, cfg).await else { return };
        for (k, path) in ["/ping", "/big"].iter().enumerate() {
            if (k as u8) < warmup {
                c.send(format!("GET {path} HTTP/1.1\r\nHost: sim\r\n\r\n").as_bytes(), 0);
                if c.recv(false, DEFAULT_TIMEOUT).await.is_err() {
                    return;
                }
            }
        }
        let req = format!("{} /r HTTP/1.1\r\nHost: sim\r\n\r\n", if head { "HEAD" } else { "GET" });
        c.send(req.as_bytes(), 0);
        c.stall = stall.map(|(a, ms)| (a, ms * MS));
        let r = c.recv_paced(head, DEFAULT_TIMEOUT, read_max, pause * MS).await;
        let ok = r.as_ref().map(|r| r.framing != Framing::Undetermined).unwrap_or(false);
        o2.borrow_mut().0 = Some(r);
        if ok {
            // anything that arrives although the message is complete (nothing else was requested yet)
            let _ = c.fill(1 << 16, 200 * MS).await;
            STRAY.with(|s| s.set(c.buf.len()));
        }
        if ok {
            // the end of the first message was determinable: a second exchange on the same connection must work
            c.send(b"GET /ping HTTP/1.1\r\nHost: sim\r\n\r\n", 0);
            let r2 = c.recv(false, DEFAULT_TIMEOUT).await;
            o2.borrow_mut().1 = Some(r2);
        }
        c.send_fin(0);
        let _ = c.drain_until_close(DEFAULT_TIMEOUT).await;
    });
    let end = simcore::run();
    let counters = simcore::with(|w| w.counters.clone());
    if counters.get("fault.short_write").copied().unwrap_or(0) > 0 {
        out.probe("c03.short_write_fired");
    }
    if counters.get("fault.write_backpressure").copied().unwrap_or(0) > 0 {
        out.probe("c03.backpressure_fired");
    }

    // ---- oracle
    let overruns = rt::take_overruns();
    if let Some((len, add, cap)) = overruns.first() {
        out.violate("no-overrun", "serializer", format!("push_unchecked! wrote past the reserved size: len {len} + {add} > capacity {cap} ({} such writes)", overruns.len()));
        return;
    }
    let panics = rt::panicked_tasks();
    if let Some((_, _, file, _, msg)) = panics.first() {
        out.violate("no-panic", rt::panic_site(file, msg), format!("a server task panicked at {file}: {msg}"));
        return;
    }
    if matches!(end, simcore::EndReason::StepCap | simcore::EndReason::TimeCap) {
        out.verdict = Verdict::Inconclusive(format!("{end:?}"));
        return;
    }
    let obs = obs.borrow();
    let r = match &obs.0 {
        Some(Ok(r)) => r,
        Some(Err(RecvErr::Malformed(msg, raw))) => {
            out.violate("well-formed", "parse", format!("not a well-formed HTTP/1.1 response: {msg}; raw head: {:?}", String::from_utf8_lossy(raw).chars().take(300).collect::<String>()));
            return;
        }
        Some(Err(e)) => {
            let kind = match e {
                RecvErr::Closed(_) => "closed",
                RecvErr::Reset(_) => "reset",
                RecvErr::Timeout(_) => "timeout",
                RecvErr::Malformed(..) => "malformed",
            };
            out.violate("well-formed", kind, format!("no complete response arrived: {kind}"));
            return;
        }
        None => {
            out.verdict = Verdict::Inconclusive("client never ran".into());
            return;
        }
    };
    out.nontrivial = true;
    let head_shown: String = String::from_utf8_lossy(&r.raw[..r.head_len.min(r.raw.len())]).chars().take(600).collect();
    if r.status != m.status {
        out.violate("status-line", "code", format!("status {} on the wire, {} set; head: {head_shown:?}", r.status, m.status));
        return;
    }
    // framing
    let may_carry_body = !(m.status / 100 == 1 || m.status == 204 || m.status == 304);
    if m.status == 204 {
        if r.header("content-length").is_some() {
            out.violate("framing", "204-with-content-length", format!("204 response carries Content-Length; head: {head_shown:?}"));
            return;
        }
    } else if may_carry_body && !sc.head {
        // (a response to HEAD never carries a body: its end is always determinable)
        let has_len = r.header("content-length").is_some();
        let chunked = r.header_all("transfer-encoding").iter().any(|v| v.to_ascii_lowercase().contains("chunked"));
        if !has_len && !chunked {
            out.violate("framing", "no-declared-length", format!("status {} response declares neither Content-Length nor chunked coding: the client cannot tell where it ends; head: {head_shown:?}", m.status));
            return;
        }
        if r.header_all("content-length").len() > 1 {
            out.violate("headers", "duplicate:content-length", format!("several Content-Length lines; head: {head_shown:?}"));
            return;
        }
    }
    // body
    if !sc.head && may_carry_body {
        match &m.body {
            Body::None => {
                if !r.body.is_empty() {
                    out.violate("body", "unexpected-body", format!("{} body bytes on a response without content", r.body.len()));
                    return;
                }
            }
            Body::Bytes(b) => {
                if &r.body != b {
                    out.violate("body", "bytes-differ", format!("body differs: {} bytes on the wire, {} set", r.body.len(), b.len()));
                    return;
                }
                if let Framing::Length(n) = r.framing {
                    if n != b.len() {
                        out.violate("framing", "content-length-value", format!("Content-Length {n} but body has {} bytes", b.len()));
                        return;
                    }
                }
            }
            Body::Stream(_) => {
                if !matches!(r.framing, Framing::Chunked(_)) {
                    out.violate("framing", "stream-not-chunked", format!("stream response is not chunked; head: {head_shown:?}"));
                    return;
                }
            }
        }
    }
    // headers: every live header exactly once with its latest value; nothing removed or stale
    for (name, value) in &m.live {
        if name == "content-length" || name == "transfer-encoding" {
            continue;
        }
        if name == "content-type" && m.status == 204 {
            continue; // open: content headers of a response whose content the router dropped
        }
        let got = r.header_all(name);
        let canonical = STD.iter().find(|s| s.eq_ignore_ascii_case(name)).copied().unwrap_or(name.as_str());
        if got.is_empty() {
            out.violate("headers", format!("missing:{}", if STD.iter().any(|s| s.eq_ignore_ascii_case(name)) { canonical.to_string() } else { "custom".into() }), format!("live header {canonical} (value {:?}) is not on the wire; head: {head_shown:?}", value.chars().take(80).collect::<String>()));
            return;
        }
        if got.len() > 1 {
            out.violate("headers", "duplicate", format!("header {canonical} appears {} times: {:?}", got.len(), got.iter().map(|v| v.chars().take(40).collect::<String>()).collect::<Vec<_>>()));
            return;
        }
        if name == "date" && m.date_is_default {
            // the response is created at some instant of the run: any second between start and end is right
            let end_date = imf_fixdate(simcore::with(|w| w.wall_secs()));
            let ok = got[0] == date_at_start || got[0] == end_date || {
                let (s0, s1) = (sc.wall, simcore::with(|w| w.wall_secs()));
                (s0..=s1.min(s0 + 120)).any(|s| imf_fixdate(s) == got[0])
            };
            if !ok {
                out.violate("headers", "date-value", format!("Date {:?} is not the IMF-fixdate of the simulated clock ({date_at_start:?})", got[0]));
                return;
            }
            continue;
        }
        if got[0] != value.trim() {
            out.violate("headers", "stale-or-wrong-value", format!("header {canonical}: {:?} on the wire, latest value set {:?}", got[0].chars().take(80).collect::<String>(), value.chars().take(80).collect::<String>()));
            return;
        }
    }
    for (n, v) in &r.headers {
        let ln = n.to_ascii_lowercase();
        if ln == "set-cookie" || ln == "content-length" || ln == "transfer-encoding" {
            continue;
        }
        if !m.live.contains_key(&ln) {
            if (ln == "content-type") && m.status == 204 {
                continue;
            }
            out.violate("headers", "removed-header-present", format!("header {n}: {:?} is on the wire but was removed / never set", v.chars().take(80).collect::<String>()));
            return;
        }
    }
    // Set-Cookie: one line per call, in order
    let sc_lines = r.header_all("set-cookie");
    if sc_lines.len() != m.cookies.len() {
        out.violate("headers", "set-cookie-count", format!("{} Set-Cookie lines for {} SetCookie calls", sc_lines.len(), m.cookies.len()));
        return;
    }
    for (line, op) in sc_lines.iter().zip(m.cookies.iter()) {
        if let Op::Cookie { name, value, max_age, path, domain, secure, http_only, same_site, expires } = op {
            let mut parts = line.split("; ");
            let first = parts.next().unwrap_or("");
            let cname = COOKIE_NAMES[*name % COOKIE_NAMES.len()];
            let ok_first = first.split_once('=').map(|(n, v)| n == cname && crate::reqmodel::percent_decode(v.as_bytes()) == value.as_bytes()).unwrap_or(false);
            let mut want: Vec<String> = Vec::new();
            if let Some(e) = expires {
                want.push(format!("Expires={e}"));
            }
            if let Some(x) = max_age {
                want.push(format!("Max-Age={x}"));
            }
            if let Some(x) = domain {
                want.push(format!("Domain={x}"));
            }
            if let Some(x) = path {
                want.push(format!("Path={x}"));
            }
            if *secure {
                want.push("Secure".into());
            }
            if *http_only {
                want.push("HttpOnly".into());
            }
            match same_site {
                1 => want.push("SameSite=Lax".into()),
                2 => want.push("SameSite=None".into()),
                3 => want.push("SameSite=Strict".into()),
                _ => {}
            }
            let mut got: Vec<String> = parts.map(|s| s.to_string()).collect();
            got.sort();
            want.sort();
            if !ok_first || got != want {
                out.violate("headers", "set-cookie-content", format!("Set-Cookie line {line:?} does not render cookie {cname}={value:?} with directives {want:?}"));
                return;
            }
        }
    }
    // bytes after the end of the message
    let stray = STRAY.with(|s| s.get());
    if stray > 0 {
        out.violate("framing", "bytes-after-message-end", format!("{stray} bytes followed the end of the {} response (status {}, framing {}): they will be taken for the next response; head: {head_shown:?}", if sc.head { "HEAD" } else { "GET" }, r.status, r.framing_kind()));
        return;
    }
    // the second exchange
    match &obs.1 {
        Some(Ok(r2)) => {
            if r2.status == 200 && r2.body == b"pong" {
                out.probe("c03.second_request_answered");
            } else {
                out.violate("framing", "second-exchange-garbled", format!("the next request on the connection got status {} body {:?}", r2.status, r2.body_text().chars().take(60).collect::<String>()));
            }
        }
        Some(Err(e)) => {
            out.violate("framing", "second-exchange-failed", format!("the next request on the same connection was not answered properly: {e:?}"));
        }
        None => {}
    }
}
