//! The Dump fang: answers every request with a canonical, hex-encoded rendering of everything it can
//! observe through the public accessors. Used by C02, C05, C06.

use crate::client::hex;
use ohkami::{Fang, FangProc, Request, Response};
use std::cell::RefCell;

thread_local! {
    /// lower-cased custom header names the dump looks up with `headers.get(..)`
    pub static DUMP_CUSTOM: RefCell<Vec<String>> = const { RefCell::new(Vec::new()) };
    /// lower-cased standard header names the dump additionally looks up with `headers.get(..)`
    pub static DUMP_GET_STD: RefCell<Vec<String>> = const { RefCell::new(Vec::new()) };
}

macro_rules! std_headers {
    ($req:ident, $out:ident; $( ($acc:ident, $name:literal) ),* ) => {
        $(
            if let Some(v) = $req.headers.$acc() {
                $out.push(format!("H {} {}", $name.to_ascii_lowercase(), hex(v.as_bytes())));
            }
        )*
    };
}

pub fn dump_request(req: &Request) -> Vec<String> {
    let mut out = Vec::new();
    out.push(format!("M {}", req.method.as_str()));
    out.push(format!("P {}", hex(req.path.str().as_bytes())));
    // the address the request is attributed to. No reference value: an implementation may take it from the connection or
    // from what a proxy reports; it is part of the dump so that the comparisons between two deliveries of the same
    // request (C05: as k-th request and alone; C06: any segmentation) cover it
    out.push(format!("I {}", req.ip));
    // every public way to look at the path must be usable on a request that reached a fang: `Deref<Target = str>` /
    // `AsRef<str>` (what `req.path.starts_with(..)` goes through), `Display`, `Debug`, `params()`
    let _: usize = (&*req.path).len() + AsRef::<str>::as_ref(&req.path).len() + format!("{} {:?}", req.path, req.path).len() + req.path.params().count();
    for (k, v) in req.query.iter() {
        out.push(format!("Q {} {}", hex(k.as_bytes()), hex(v.as_bytes())));
    }
    let mut hs: Vec<String> = Vec::new();
    std_headers!(req, hs;
        (Accept, "Accept"), (AcceptEncoding, "Accept-Encoding"), (AcceptLanguage, "Accept-Language"), (AccessControlRequestHeaders, "Access-Control-Request-Headers"), (AccessControlRequestMethod, "Access-Control-Request-Method"), (Authorization, "Authorization"), (CacheControl, "Cache-Control"), (Connection, "Connection"), (ContentDisposition, "Content-Disposition"), (ContentEncoding, "Content-Encoding"), (ContentLanguage, "Content-Language"), (ContentLength, "Content-Length"), (ContentLocation, "Content-Location"), (ContentType, "Content-Type"), (Cookie, "Cookie"), (Date, "Date"), (Expect, "Expect"), (Forwarded, "Forwarded"), (From, "From"), (Host, "Host"), (IfMatch, "If-Match"), (IfModifiedSince, "If-Modified-Since"), (IfNoneMatch, "If-None-Match"), (IfRange, "If-Range"), (IfUnmodifiedSince, "If-Unmodified-Since"), (Link, "Link"), (MaxForwards, "Max-Forwards"), (Origin, "Origin"), (ProxyAuthorization, "Proxy-Authorization"), (Range, "Range"), (Referer, "Referer"), (SecFetchDest, "Sec-Fetch-Dest"), (SecFetchMode, "Sec-Fetch-Mode"), (SecFetchSite, "Sec-Fetch-Site"), (SecFetchUser, "Sec-Fetch-User"), (SecWebSocketExtensions, "Sec-WebSocket-Extensions"), (SecWebSocketKey, "Sec-WebSocket-Key"), (SecWebSocketProtocol, "Sec-WebSocket-Protocol"), (SecWebSocketVersion, "Sec-WebSocket-Version"), (TE, "TE"), (Trailer, "Trailer"), (TransferEncoding, "Transfer-Encoding"), (UserAgent, "User-Agent"), (Upgrade, "Upgrade"), (UpgradeInsecureRequests, "Upgrade-Insecure-Requests"), (Via, "Via")
    );
    DUMP_GET_STD.with(|l| {
        for n in l.borrow().iter() {
            if let Some(v) = req.headers.get(n) {
                hs.push(format!("G {} {}", n, hex(v.as_bytes())));
            }
        }
    });
    DUMP_CUSTOM.with(|l| {
        for n in l.borrow().iter() {
            if let Some(v) = req.headers.get(n) {
                hs.push(format!("X {} {}", n, hex(v.as_bytes())));
            }
        }
    });
    hs.sort();
    out.extend(hs);
    match req.payload() {
        Some(b) => out.push(format!("B {}", hex(b))),
        None => out.push("B -".to_string()),
    }
    out
}

#[derive(Clone)]
pub struct Dump;
pub struct DumpProc;
impl<I: FangProc> Fang<I> for Dump {
    type Proc = DumpProc;
    fn chain(&self, _inner: I) -> DumpProc {
        DumpProc
    }
}
impl FangProc for DumpProc {
    #[allow(clippy::manual_async_fn)]
    fn bite<'b>(&'b self, req: &'b mut Request) -> impl std::future::Future<Output = Response> + Send {
        let text = dump_request(req).join("\n");
        // (wave 17) the method the fang saw also goes into a header: a HEAD has no body to carry the dump
        let m = req.method.as_str().to_string();
        async move { Response::OK().with_text(text).with_headers(|h| h.x("X-Dump", "1").x("X-Dump-Method", m)) }
    }
}
