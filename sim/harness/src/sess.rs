//! Shared workload for the session properties (C05, C06): the application, the extended dump fang
//! (path params, per-request context), request-sequence generation and the reference expectations.

use crate::client::hex;
use crate::dump::{dump_request, DUMP_CUSTOM, DUMP_GET_STD};
use crate::reqmodel::{gen_request, percent_decode, GenOpts, NameCase, ReqSpec};
use crate::rt::t;
use ohkami::{Fang, FangProc, Ohkami, Request, Response, Route};
use serde::{Deserialize, Serialize};

/// what a request stores in the per-request context
#[derive(Clone)]
pub struct CtxMarker(pub String);

#[derive(Clone)]
pub struct SessDump;
pub struct SessDumpProc;
impl<I: FangProc> Fang<I> for SessDump {
    type Proc = SessDumpProc;
    fn chain(&self, _inner: I) -> SessDumpProc {
        SessDumpProc
    }
}
impl FangProc for SessDumpProc {
    fn bite<'b>(&'b self, req: &'b mut Request) -> impl std::future::Future<Output = Response> + Send {
        let mut lines = dump_request(req);
        for p in req.path.params() {
            lines.push(format!("A {}", hex(p.as_bytes())));
        }
        // a context entry can only be there if an EARLIER request of this connection left it
        if let Some(m) = req.context.get::<CtxMarker>() {
            lines.push(format!("C {}", hex(m.0.as_bytes())));
        }
        if let Some(v) = req.headers.get("x-set-ctx") {
            let v = v.to_string();
            req.context.set(CtxMarker(v));
        }
        let delay = req.headers.get("x-delay-ms").and_then(|v| v.parse::<u64>().ok()).unwrap_or(0);
        let text = lines.join("\n");
        // responses that announce no length: a 204, and a chunked event stream. The session goes on after both
        let shape = req.headers.get("x-shape").map(|v| v.to_string()).unwrap_or_default();
        async move {
            if delay > 0 {
                tokio::time::sleep(std::time::Duration::from_millis(delay)).await;
            }
            match shape.as_str() {
                "204" => Response::NoContent().with_headers(|h| h.x("X-Dump", "1").x("X-Dump-Sum", format!("{:016x}", crate::rt::fnv64(text.as_bytes())))),
                "stream" => {
                    let ds: ohkami::sse::DataStream<String> = ohkami::sse::DataStream::new(move |mut s| async move {
                        for l in lines {
                            s.send(l);
                        }
                    });
                    ohkami::IntoResponse::into_response(ds).with_headers(|h| h.x("X-Dump", "1"))
                }
                _ => Response::OK().with_text(text).with_headers(|h| h.x("X-Dump", "1")),
            }
        }
    }
}

async fn noop() -> &'static str {
    "handler"
}

pub fn build_app() -> Ohkami {
    Ohkami::new((
        SessDump,
        "/p/:a".GET(noop).PUT(noop).POST(noop).PATCH(noop).DELETE(noop),
        "/p/:a/q/:b".GET(noop).PUT(noop).POST(noop).PATCH(noop).DELETE(noop),
        "/s/fixed".GET(noop).POST(noop),
    ))
}

/// params the routes above capture for this raw path (model: segment-wise, raw bytes, one trailing slash dropped)
pub fn expected_params(raw_path: &str) -> Vec<Vec<u8>> {
    let mut p = raw_path;
    if p.len() > 1 && p.ends_with('/') {
        p = &p[..p.len() - 1];
    }
    let segs: Vec<&str> = p.split('/').skip(1).collect();
    match segs.as_slice() {
        ["p", a] if !a.is_empty() => vec![percent_decode(a.as_bytes())],
        ["p", a, "q", b] if !a.is_empty() && !b.is_empty() => vec![percent_decode(a.as_bytes()), percent_decode(b.as_bytes())],
        _ => vec![],
    }
}

pub fn expected_dump(spec: &ReqSpec) -> Vec<String> {
    let mut v = spec.expected_dump();
    for p in expected_params(&spec.path) {
        v.push(format!("A {}", hex(&p)));
    }
    v
}

#[derive(Clone, Debug, Serialize, Deserialize)]
pub struct ReqItem {
    pub spec: ReqSpec,
    /// Some => these bytes are sent instead of spec.to_bytes(): a complete but malformed request (< 1 KiB)
    #[serde(default)]
    pub malformed: Option<(String, String)>, // (kind, hex bytes)
}
impl ReqItem {
    pub fn bytes(&self) -> Vec<u8> {
        match &self.malformed {
            Some((_, h)) => crate::client::unhex(h).unwrap_or_default(),
            None => self.spec.to_bytes(),
        }
    }
    pub fn is_head(&self) -> bool {
        // (a server may skip empty lines in front of the request line: what it then serves is a HEAD)
        let b = self.bytes();
        let start = b.iter().position(|c| *c != b'\r' && *c != b'\n').unwrap_or(b.len());
        b[start..].starts_with(b"HEAD ")
    }
    pub fn wants_close(&self) -> bool {
        self.malformed.is_none() && self.spec.headers.iter().any(|(n, v)| n.eq_ignore_ascii_case("connection") && (v == b"close" || v == b"Close"))
    }
}

pub struct SeqOpts {
    pub min: usize,
    pub max: usize,
    pub allow_malformed: bool,
    pub allow_close: bool,
    pub max_body: usize,
    pub allow_delay: bool,
    /// some requests ask for a response without Content-Length (`x-shape: 204 | stream`)
    pub shapes: bool,
}

/// a sequence of requests for one connection; markers make every request's data unique
pub fn gen_sequence(conn_tag: usize, o: &SeqOpts) -> Vec<ReqItem> {
    let n = t::range(o.min as u64, o.max as u64) as usize;
    let mut out = Vec::new();
    let close_at = if o.allow_close && t::chance(1, 4) { Some(t::draw(n as u32) as usize) } else { None };
    for k in 0..n {
        let opts = GenOpts {
            name_case: if t::chance(1, 4) { NameCase::Any } else { NameCase::Plain },
            max_headers: 6,
            allow_body: true,
            max_body: o.max_body,
            allow_leading_nul: true,
            allow_repeats: true,
            connection_header: false,
        };
        let mut spec = gen_request(&opts);
        let marker = format!("mk{conn_tag}x{k}");
        // paths that exercise the param slots on some requests and not on later ones
        match t::weighted(&[3, 2, 2, 1]) {
            0 => {}
            1 => spec.path = format!("/p/{marker}{}", if t::chance(1, 5) { "/" } else { "" }),
            2 => spec.path = format!("/p/{marker}/q/{}", t::pick(&["zz", "%41b", "q", "0"])),
            _ => spec.path = "/s/fixed".to_string(),
        }
        if t::chance(1, 2) {
            spec.headers.push(("x-marker".into(), marker.clone().into_bytes()));
        }
        if t::chance(1, 3) {
            spec.headers.push(("x-set-ctx".into(), format!("ctx-{marker}").into_bytes()));
        }
        if t::chance(1, 3) {
            // a standard header present here and perhaps absent in the next request
            spec.headers.push((t::pick(&["Authorization", "cookie", "If-None-Match", "ORIGIN"]).to_string(), format!("v-{marker}").into_bytes()));
        }
        if o.shapes && t::chance(1, 5) {
            // answered without a Content-Length (a 204; a chunked stream): the connection stays usable after it
            spec.headers.push(("x-shape".into(), t::pick(&["204", "stream"]).as_bytes().to_vec()));
        }
        if o.allow_delay && t::chance(1, 6) {
            spec.headers.push(("x-delay-ms".into(), t::pick(&["1", "20", "1500"]).as_bytes().to_vec()));
        }
        if let Some(b) = &mut spec.body {
            // make the payload attributable
            let m = marker.as_bytes();
            if b.len() >= m.len() + 1 {
                let at = 1;
                b[at..at + m.len()].copy_from_slice(m);
            }
        }
        if close_at == Some(k) {
            spec.headers.push((t::pick(&["Connection", "connection"]).to_string(), t::pick(&["close", "Close"]).as_bytes().to_vec()));
        }
        while spec.head_bytes().len() > 1024 {
            spec.headers.remove(0);
        }
        if close_at != Some(k) {
            crate::reqmodel::maybe_pad_to_buffer_edge(&mut spec);
        }
        let mut item = ReqItem { spec, malformed: None };
        if o.allow_malformed && close_at != Some(k) && t::chance(1, 10) {
            item.malformed = malform(&item.spec);
        }
        out.push(item);
    }
    out
}

/// a complete but malformed request head (< 1000 bytes, so that one read can consume it) derived from a well-formed one
pub fn malform(spec: &ReqSpec) -> Option<(String, String)> {
    let mut s2 = spec.clone();
    s2.body = None;
    let mut head = s2.head_bytes();
    let kind = t::pick(&["bad-version", "no-colon", "cl-non-numeric"]);
    match kind {
        "bad-version" => {
            let s = String::from_utf8_lossy(&head).replacen("HTTP/1.1", "HTTP/3.9", 1);
            head = s.into_bytes();
        }
        "no-colon" => {
            head.truncate(head.len() - 2);
            head.extend_from_slice(b"novalue\r\n\r\n");
        }
        _ => {
            head.truncate(head.len() - 2);
            head.extend_from_slice(b"Content-Length: 1x\r\n\r\n");
        }
    }
    if head.len() < 1000 {
        Some((kind.to_string(), hex(&head)))
    } else {
        None
    }
}

/// configure what the dump fang looks up: the union over all requests of the run
pub fn configure_dump(all: &[&ReqItem]) {
    let mut custom: Vec<String> = Vec::new();
    let mut stdn: Vec<String> = Vec::new();
    for it in all {
        custom.extend(it.spec.custom_names());
        stdn.extend(it.spec.std_names());
    }
    custom.sort();
    custom.dedup();
    stdn.sort();
    stdn.dedup();
    DUMP_CUSTOM.with(|l| *l.borrow_mut() = custom);
    DUMP_GET_STD.with(|l| *l.borrow_mut() = stdn);
}

/// compare a dump body with the reference for a well-formed request; returns the first differing aspect
pub fn dump_diff(body: &str, spec: &ReqSpec) -> Option<(String, String)> {
    let got: Vec<String> = body.lines().map(|s| s.to_string()).collect();
    let exp = expected_dump(spec);
    let pick = |v: &[String], p: &str| -> Vec<String> { v.iter().filter(|l| l.starts_with(p)).cloned().collect() };
    for (tag, name, ordered) in [
        ("M ", "method", true),
        ("P ", "path", true),
        ("Q ", "query", true),
        ("H ", "header-typed", false),
        ("G ", "header-get", false),
        ("X ", "header-custom", false),
        ("B ", "payload", true),
        ("A ", "params", true),
        ("C ", "context", true),
    ] {
        let mut g = pick(&got, tag);
        let mut e = pick(&exp, tag);
        if !ordered {
            g.sort();
            e.sort();
        }
        if g != e {
            let short = |v: &Vec<String>| v.iter().take(5).map(|s| s.chars().take(120).collect::<String>()).collect::<Vec<_>>();
            return Some((name.to_string(), format!("expected {:?} observed {:?}", short(&e), short(&g))));
        }
    }
    None
}
