//! Driver: forked workers, one forked child per run, aggregation, triage against the known-findings
//! file, shrinking, replay files, evidence.

use crate::props;
use crate::rt::{Outcome, RunCfg, RunRecord, Verdict};
use serde::{Deserialize, Serialize};
use serde_json::json;
use std::collections::{BTreeMap, BTreeSet};
use std::io::{Read, Write};
use std::os::fd::FromRawFd;
use std::time::Instant;

pub const VERIF_DIR: &str = "/verif";

#[derive(Clone, Debug, Serialize, Deserialize)]
pub struct Finding {
    pub id: String,
    pub property: String,
    pub status: String, // "known" | "fixed"
    pub signatures: Vec<String>,
    pub hazard: String,
    pub what: String,
    #[serde(default)]
    pub commit: Option<String>,
    #[serde(default)]
    pub replay: Option<String>,
}

pub fn load_findings() -> Vec<Finding> {
    let p = format!("{VERIF_DIR}/known_findings.json");
    match std::fs::read_to_string(&p) {
        Ok(s) => serde_json::from_str(&s).unwrap_or_else(|e| {
            eprintln!("harness error: cannot parse {p}: {e}");
            std::process::exit(2)
        }),
        Err(_) => Vec::new(),
    }
}

/// a signature pattern matches if equal, or if it ends with '*' and is a prefix
pub fn sig_matches(pattern: &str, sig: &str) -> bool {
    // glob with '*' (any run of characters)
    let parts: Vec<&str> = pattern.split('*').collect();
    if parts.len() == 1 {
        return pattern == sig;
    }
    let mut rest = sig;
    for (i, p) in parts.iter().enumerate() {
        if i == 0 {
            if !rest.starts_with(p) {
                return false;
            }
            rest = &rest[p.len()..];
        } else if i == parts.len() - 1 {
            return rest.ends_with(p);
        } else {
            match rest.find(p) {
                Some(at) => rest = &rest[at + p.len()..],
                None => return false,
            }
        }
    }
    true
}

/// which known finding (status known) does this violating outcome belong to?
pub fn attribute<'a>(findings: &'a [Finding], prop: &str, o: &Outcome) -> Option<&'a Finding> {
    let sig = o.signature(prop)?;
    findings.iter().find(|f| {
        f.property == prop && f.status == "known" && o.hazards.iter().any(|h| *h == f.hazard) && f.signatures.iter().any(|p| sig_matches(p, &sig))
    })
}

#[derive(Clone, Debug)]
pub enum TapeSrc {
    Seed { seed: u64, run: u64 },
    Tape(Vec<u32>),
    /// explicit scenario (as stored in a replay file) + the schedule/fault part of the tape
    Direct { scenario: serde_json::Value, sched: Vec<u32> },
}

#[derive(Clone, Debug, Serialize, Deserialize)]
pub struct CfgSer {
    pub guarded: Vec<String>,
    pub enter: Option<String>,
    pub thorough: bool,
}
impl From<&RunCfg> for CfgSer {
    fn from(c: &RunCfg) -> Self {
        CfgSer { guarded: c.guarded.iter().cloned().collect(), enter: c.enter.clone(), thorough: c.thorough }
    }
}
impl From<&CfgSer> for RunCfg {
    fn from(c: &CfgSer) -> Self {
        RunCfg { guarded: c.guarded.iter().cloned().collect(), enter: c.enter.clone(), thorough: c.thorough, run: 0 }
    }
}

/// Execute one run in this process (used inside forked children and for debugging).
pub fn run_here(prop: &str, src: &TapeSrc, cfg: &RunCfg, trace: bool) -> RunRecord {
    let (tape, run, direct) = match src {
        TapeSrc::Seed { seed, run } => (simcore::Tape::generate(simcore::tape::mix_seed(*seed, prop, *run)), *run, None),
        TapeSrc::Tape(t) => (simcore::Tape::replay(t.clone()), 0, None),
        TapeSrc::Direct { scenario, sched } => (simcore::Tape::replay(sched.clone()), 0, Some(scenario)),
    };
    simcore::signal::clear();
    crate::rt::start_world(tape, trace);
    crate::rt::GEN_LEN.with(|g| g.set(0));
    let outcome = props::run(prop, cfg, direct);
    simcore::drop_all_tasks();
    let w = simcore::uninstall().expect("world vanished");
    RunRecord {
        prop: prop.to_string(),
        run,
        outcome,
        tape: w.tape.consumed(),
        gen_len: crate::rt::GEN_LEN.with(|g| g.get()),
        trace_hash: w.trace_hash,
        sched_hash: w.sched_hash,
        steps: w.steps,
        sim_ns: w.now,
        end: String::new(),
        counters: w.counters.iter().map(|(k, v)| (k.to_string(), *v)).collect(),
        trace: w.trace.clone(),
    }
}

pub enum ChildResult {
    Record(Box<RunRecord>),
    Crashed(i32),
    Stuck,
    Garbled(String),
}

/// fork a child, run once, read the record from a pipe
pub fn run_isolated(prop: &str, src: &TapeSrc, cfg: &RunCfg, trace: bool) -> ChildResult {
    unsafe {
        let mut fds = [0i32; 2];
        if libc::pipe(fds.as_mut_ptr()) != 0 {
            return ChildResult::Garbled("pipe failed".into());
        }
        let pid = libc::fork();
        if pid < 0 {
            return ChildResult::Garbled("fork failed".into());
        }
        if pid == 0 {
            // ---- child
            libc::close(fds[0]);
            // watchdog: 20 s of CPU time (insensitive to how loaded the machine is) and, for a child that blocks without
            // using any, 120 s of wall time
            let tv = libc::itimerval { it_interval: libc::timeval { tv_sec: 0, tv_usec: 0 }, it_value: libc::timeval { tv_sec: 20, tv_usec: 0 } };
            libc::setitimer(libc::ITIMER_PROF, &tv, std::ptr::null_mut());
            libc::alarm(120);
            if std::env::var_os("VERIF_CHILD_STDERR").is_none() {
                let devnull = libc::open(b"/dev/null\0".as_ptr() as *const libc::c_char, libc::O_WRONLY);
                if devnull >= 0 {
                    libc::dup2(devnull, 2);
                    libc::dup2(devnull, 1);
                }
            }
            // a panic that escapes a run is either the code under test panicking outside any task (e.g. while the
            // application is built) — a violation — or a defect of this harness — a harness error (exit 2), never a verdict
            let res = std::panic::catch_unwind(std::panic::AssertUnwindSafe(|| run_here(prop, src, cfg, trace)));
            let mut f = std::fs::File::from_raw_fd(fds[1]);
            let code = match res {
                Ok(rec) => {
                    let _ = f.write_all(&serde_json::to_vec(&rec).unwrap_or_default());
                    0
                }
                Err(_) => {
                    let info = simcore::LAST_PANIC.with(|p| p.borrow_mut().take());
                    let (file, line, message) = info.map(|i| (i.file, i.line, i.message)).unwrap_or_default();
                    let own = file.starts_with("harness/") || file.starts_with("simcore/") || file.starts_with("facade/") || file.contains("/verif/sim/") || file.is_empty();
                    if own {
                        let _ = f.write_all(format!("harness panic at {file}:{line}: {message}").as_bytes());
                        3
                    } else {
                        let run = match src {
                            TapeSrc::Seed { run, .. } => *run,
                            _ => 0,
                        };
                        let mut rec = synth_record(prop, run, "no-panic", crate::rt::panic_site(&file, &message));
                        if let Verdict::Violation { message: m, .. } = &mut rec.outcome.verdict {
                            *m = format!("the code under test panicked outside any task at {file}:{line}: {message}");
                        }
                        let _ = f.write_all(&serde_json::to_vec(&rec).unwrap_or_default());
                        0
                    }
                }
            };
            let _ = f.flush();
            drop(f);
            libc::_exit(code);
        }
        // ---- parent
        libc::close(fds[1]);
        let mut f = std::fs::File::from_raw_fd(fds[0]);
        let mut buf = Vec::new();
        let _ = f.read_to_end(&mut buf);
        drop(f);
        let mut status = 0i32;
        libc::waitpid(pid, &mut status, 0);
        if libc::WIFSIGNALED(status) {
            let sig = libc::WTERMSIG(status);
            if sig == libc::SIGALRM || sig == libc::SIGPROF {
                return ChildResult::Stuck;
            }
            return ChildResult::Crashed(sig);
        }
        if libc::WIFEXITED(status) && libc::WEXITSTATUS(status) == 3 {
            return ChildResult::Garbled(String::from_utf8_lossy(&buf).to_string());
        }
        if libc::WIFEXITED(status) && libc::WEXITSTATUS(status) != 0 {
            return ChildResult::Crashed(-libc::WEXITSTATUS(status));
        }
        match serde_json::from_slice::<RunRecord>(&buf) {
            Ok(r) => ChildResult::Record(Box::new(r)),
            Err(e) => ChildResult::Garbled(format!("{e}")),
        }
    }
}

fn synth_record(prop: &str, run: u64, rule: &str, manifestation: String) -> RunRecord {
    let mut o = Outcome::new();
    o.violate(rule, manifestation.clone(), format!("worker process: {manifestation}"));
    RunRecord {
        prop: prop.to_string(),
        run,
        outcome: o,
        tape: Vec::new(),
        gen_len: 0,
        trace_hash: 0,
        sched_hash: 0,
        steps: 0,
        sim_ns: 0,
        end: String::new(),
        counters: BTreeMap::new(),
        trace: Vec::new(),
    }
}

pub fn run_isolated_record(prop: &str, src: &TapeSrc, cfg: &RunCfg, trace: bool) -> Result<RunRecord, String> {
    let run = match src {
        TapeSrc::Seed { run, .. } => *run,
        _ => 0,
    };
    match run_isolated(prop, src, cfg, trace) {
        ChildResult::Record(r) => Ok(*r),
        ChildResult::Crashed(sig) => Ok(synth_record(prop, run, "crash", format!("signal-{sig}"))),
        ChildResult::Stuck => Ok(synth_record(prop, run, "stuck", "no-yield-for-20s-wall".to_string())),
        ChildResult::Garbled(e) => Err(e),
    }
}

#[derive(Default, Serialize, Deserialize)]
pub struct Agg {
    pub runs: u64,
    pub ok: u64,
    pub discard: u64,
    pub inconclusive: u64,
    pub inconclusive_reasons: BTreeMap<String, u64>,
    pub nontrivial_hashes: BTreeSet<u64>,
    pub sched_hashes: BTreeSet<u64>,
    pub counters: BTreeMap<String, u64>,
    pub probes: BTreeMap<String, u64>,
    pub redraws: BTreeMap<String, u64>,
    pub states: BTreeSet<String>,
    pub sim_ns: u128,
    pub steps: u64,
    pub known_hits: BTreeMap<String, u64>,
    pub hazard_runs: BTreeMap<String, u64>,
    /// new (unlisted) violations: signature -> (count, lowest run, cfg.enter)
    pub new_violations: BTreeMap<String, (u64, u64, Option<String>)>,
    pub samples: Vec<serde_json::Value>,
    pub harness_errors: Vec<String>,
}

impl Agg {
    fn merge(&mut self, o: Agg) {
        self.runs += o.runs;
        self.ok += o.ok;
        self.discard += o.discard;
        self.inconclusive += o.inconclusive;
        for (k, v) in o.inconclusive_reasons {
            *self.inconclusive_reasons.entry(k).or_insert(0) += v;
        }
        self.nontrivial_hashes.extend(o.nontrivial_hashes);
        self.sched_hashes.extend(o.sched_hashes);
        for (k, v) in o.counters {
            *self.counters.entry(k).or_insert(0) += v;
        }
        for (k, v) in o.probes {
            *self.probes.entry(k).or_insert(0) += v;
        }
        for (k, v) in o.redraws {
            *self.redraws.entry(k).or_insert(0) += v;
        }
        self.states.extend(o.states);
        self.sim_ns += o.sim_ns;
        self.steps += o.steps;
        for (k, v) in o.known_hits {
            *self.known_hits.entry(k).or_insert(0) += v;
        }
        for (k, v) in o.hazard_runs {
            *self.hazard_runs.entry(k).or_insert(0) += v;
        }
        for (k, (c, r, e)) in o.new_violations {
            let ent = self.new_violations.entry(k).or_insert((0, u64::MAX, None));
            ent.0 += c;
            if r < ent.1 {
                ent.1 = r;
                ent.2 = e;
            }
        }
        self.samples.extend(o.samples);
        self.harness_errors.extend(o.harness_errors);
    }
}

/// the configuration of run `i` of a batch: every 8th run enters one known hazard class (hazard pass)
pub fn cfg_for_run(i: u64, known_hazards: &[String], thorough: bool) -> RunCfg {
    let guarded: BTreeSet<String> = known_hazards.iter().cloned().collect();
    let enter = if !known_hazards.is_empty() && i % 8 == 7 { Some(known_hazards[((i / 8) as usize) % known_hazards.len()].clone()) } else { None };
    RunCfg { guarded, enter, thorough, run: i }
}

fn worker(prop: &str, seed: u64, start: u64, step: u64, end: u64, findings: &[Finding], known_hazards: &[String], thorough: bool) -> Agg {
    let mut agg = Agg::default();
    let mut i = start;
    while i < end {
        let cfg = cfg_for_run(i, known_hazards, thorough);
        let rec = match run_isolated_record(prop, &TapeSrc::Seed { seed, run: i }, &cfg, false) {
            Ok(r) => r,
            Err(e) => {
                agg.harness_errors.push(format!("run {i}: {e}"));
                i += step;
                continue;
            }
        };
        agg.runs += 1;
        if let Some(h) = &cfg.enter {
            *agg.hazard_runs.entry(h.clone()).or_insert(0) += 1;
        }
        agg.sim_ns += rec.sim_ns as u128;
        agg.steps += rec.steps;
        agg.sched_hashes.insert(rec.sched_hash);
        for (k, v) in &rec.counters {
            *agg.counters.entry(k.clone()).or_insert(0) += v;
        }
        for (k, v) in &rec.outcome.probes {
            *agg.probes.entry(k.clone()).or_insert(0) += v;
        }
        for (k, v) in &rec.outcome.redraws {
            *agg.redraws.entry(k.clone()).or_insert(0) += v;
        }
        for s in &rec.outcome.states {
            agg.states.insert(s.clone());
        }
        if rec.outcome.nontrivial {
            agg.nontrivial_hashes.insert(rec.outcome.scenario_hash);
        }
        match &rec.outcome.verdict {
            Verdict::Ok => {
                agg.ok += 1;
                if agg.samples.len() < 2 && rec.outcome.nontrivial {
                    agg.samples.push(json!({"run": i, "scenario": rec.outcome.scenario, "steps": rec.steps, "sim_ns": rec.sim_ns}));
                }
            }
            Verdict::Discard => agg.discard += 1,
            Verdict::Inconclusive(r) => {
                agg.inconclusive += 1;
                *agg.inconclusive_reasons.entry(r.clone()).or_insert(0) += 1;
            }
            Verdict::Violation { .. } => match attribute(findings, prop, &rec.outcome) {
                Some(f) => *agg.known_hits.entry(f.id.clone()).or_insert(0) += 1,
                None => {
                    let sig = rec.outcome.signature(prop).unwrap();
                    let ent = agg.new_violations.entry(sig).or_insert((0, u64::MAX, None));
                    ent.0 += 1;
                    if i < ent.1 {
                        ent.1 = i;
                        ent.2 = cfg.enter.clone();
                    }
                }
            },
        }
        i += step;
    }
    agg
}

/// run a batch on W forked workers; the result does not depend on W
pub fn batch(prop: &str, seed: u64, runs: u64, workers: usize, findings: &[Finding], known_hazards: &[String], thorough: bool) -> Agg {
    let w = workers.max(1).min(runs.max(1) as usize);
    let mut children: Vec<(i32, i32)> = Vec::new();
    unsafe {
        for j in 0..w {
            let mut fds = [0i32; 2];
            assert_eq!(libc::pipe(fds.as_mut_ptr()), 0);
            let pid = libc::fork();
            assert!(pid >= 0, "fork failed");
            if pid == 0 {
                libc::close(fds[0]);
                for (_, fd) in &children {
                    libc::close(*fd);
                }
                let agg = worker(prop, seed, j as u64, w as u64, runs, findings, known_hazards, thorough);
                let bytes = serde_json::to_vec(&agg).unwrap();
                let mut f = std::fs::File::from_raw_fd(fds[1]);
                let _ = f.write_all(&bytes);
                drop(f);
                libc::_exit(0);
            }
            libc::close(fds[1]);
            children.push((pid, fds[0]));
        }
    }
    // read all pipes concurrently (threads are created only after every fork)
    let handles: Vec<_> = children
        .iter()
        .map(|(pid, fd)| {
            let (pid, fd) = (*pid, *fd);
            std::thread::spawn(move || {
                let mut f = unsafe { std::fs::File::from_raw_fd(fd) };
                let mut buf = Vec::new();
                let _ = f.read_to_end(&mut buf);
                let mut status = 0i32;
                unsafe { libc::waitpid(pid, &mut status, 0) };
                (buf, status)
            })
        })
        .collect();
    let mut total = Agg::default();
    for h in handles {
        let (buf, status) = h.join().unwrap();
        match serde_json::from_slice::<Agg>(&buf) {
            Ok(a) => total.merge(a),
            Err(e) => total.harness_errors.push(format!("worker died (status {status}): {e}")),
        }
    }
    total
}

// ---------------------------------------------------------------------------------------------
// shrinking

pub fn shrink(prop: &str, tape: Vec<u32>, cfg: &RunCfg, signature: &str, budget: usize) -> (Vec<u32>, usize) {
    let mut best = tape;
    let mut tries = 0usize;
    let started = Instant::now();
    let mut test = |cand: &Vec<u32>, tries: &mut usize| -> bool {
        *tries += 1;
        match run_isolated_record(prop, &TapeSrc::Tape(cand.clone()), cfg, false) {
            Ok(r) => r.outcome.signature(prop).as_deref() == Some(signature),
            Err(_) => false,
        }
    };
    let over = |tries: usize| tries >= budget || started.elapsed().as_secs() >= 60;
    loop {
        let mut improved = false;
        // tail truncation (binary)
        let mut lo = 0usize;
        let mut hi = best.len();
        while lo < hi && !over(tries) {
            let mid = (lo + hi) / 2;
            let cand: Vec<u32> = best[..mid].to_vec();
            if test(&cand, &mut tries) {
                hi = mid;
            } else {
                lo = mid + 1;
            }
        }
        if hi < best.len() {
            best.truncate(hi);
            improved = true;
        }
        // block deletion
        for size in [1024usize, 256, 64, 16, 4, 2, 1] {
            let mut i = 0;
            while i + size <= best.len() && !over(tries) {
                let mut cand = best.clone();
                cand.drain(i..i + size);
                if test(&cand, &mut tries) {
                    best = cand;
                    improved = true;
                } else {
                    i += size;
                }
            }
        }
        // zeroing blocks, then single values
        for size in [8usize, 1] {
            let mut i = 0;
            while i + size <= best.len() && !over(tries) {
                if best[i..i + size].iter().all(|v| *v == 0) {
                    i += size;
                    continue;
                }
                let mut cand = best.clone();
                for v in &mut cand[i..i + size] {
                    *v = 0;
                }
                if test(&cand, &mut tries) {
                    best = cand;
                    improved = true;
                }
                i += size;
            }
        }
        // per-value binary search towards 0
        let mut i = 0;
        while i < best.len() && !over(tries) {
            let orig = best[i];
            if orig > 1 {
                let (mut lo, mut hi) = (0u32, orig);
                while lo < hi && !over(tries) {
                    let mid = lo + (hi - lo) / 2;
                    let mut cand = best.clone();
                    cand[i] = mid;
                    if test(&cand, &mut tries) {
                        hi = mid;
                    } else {
                        lo = mid + 1;
                    }
                }
                if hi < orig {
                    let mut cand = best.clone();
                    cand[i] = hi;
                    if test(&cand, &mut tries) {
                        best = cand;
                        improved = true;
                    }
                }
            }
            i += 1;
        }
        while best.last() == Some(&0) {
            best.pop();
        }
        if !improved || over(tries) {
            break;
        }
    }
    (best, tries)
}

// ---------------------------------------------------------------------------------------------
// replay files

#[derive(Clone, Debug, Serialize, Deserialize)]
pub struct ReplayFile {
    pub format: u32,
    pub property: String,
    pub signature: String,
    pub seed: u64,
    pub run: u64,
    pub tier: String,
    pub repo_head: String,
    pub features: Vec<String>,
    pub cfg: CfgSer,
    pub tape_original_len: usize,
    /// the minimised tape: the first `gen_len` values generated `scenario`, the rest are schedule/fault decisions
    pub tape: Vec<u32>,
    pub gen_len: usize,
    /// the decoded scenario; replay executes THIS (so a replay file stays valid when generators change)
    pub scenario: serde_json::Value,
    pub hazards: Vec<String>,
    pub trace_hash: String,
    pub trace: Vec<String>,
    pub violation: serde_json::Value,
}

impl ReplayFile {
    pub fn direct_src(&self) -> TapeSrc {
        if self.tape.is_empty() && self.scenario.is_null() {
            // the run crashed or got stuck before it could report anything: all there is is (seed, run)
            return TapeSrc::Seed { seed: self.seed, run: self.run };
        }
        let sched: Vec<u32> = self.tape.get(self.gen_len.min(self.tape.len())..).map(|s| s.to_vec()).unwrap_or_default();
        TapeSrc::Direct { scenario: self.scenario.clone(), sched }
    }
}

pub fn repo_head() -> String {
    std::process::Command::new("git")
        .args(["-C", "/repo", "rev-parse", "HEAD"])
        .output()
        .ok()
        .map(|o| String::from_utf8_lossy(&o.stdout).trim().to_string())
        .unwrap_or_default()
}

pub fn make_replay(prop: &str, seed: u64, run: u64, tier: &str, cfg: &RunCfg, original_len: usize, rec: &RunRecord) -> ReplayFile {
    let violation = match &rec.outcome.verdict {
        Verdict::Violation { rule, manifestation, message } => json!({"rule": rule, "manifestation": manifestation, "message": message}),
        other => json!({"verdict": format!("{other:?}")}),
    };
    ReplayFile {
        format: 1,
        property: prop.to_string(),
        signature: rec.outcome.signature(prop).unwrap_or_default(),
        seed,
        run,
        tier: tier.to_string(),
        repo_head: repo_head(),
        features: vec!["rt_tokio".into(), "sse".into()],
        cfg: cfg.into(),
        tape_original_len: original_len,
        tape: rec.tape.clone(),
        gen_len: rec.gen_len,
        scenario: rec.outcome.scenario.clone(),
        hazards: rec.outcome.hazards.clone(),
        trace_hash: format!("{:016x}", rec.trace_hash),
        trace: rec.trace.clone(),
        violation,
    }
}

/// replay: 1 = reproduced (prints VIOLATION), 0 = no longer violates, 2 = diverged
pub fn replay_file(path: &str, quiet: bool) -> i32 {
    let s = match std::fs::read_to_string(path) {
        Ok(s) => s,
        Err(e) => {
            eprintln!("harness error: cannot read {path}: {e}");
            return 2;
        }
    };
    let rf: ReplayFile = match serde_json::from_str(&s) {
        Ok(r) => r,
        Err(e) => {
            eprintln!("harness error: cannot parse {path}: {e}");
            return 2;
        }
    };
    let cfg: RunCfg = (&rf.cfg).into();
    let rec = match run_isolated_record(&rf.property, &rf.direct_src(), &cfg, true) {
        Ok(r) => r,
        Err(e) => {
            eprintln!("harness error: replay child failed: {e}");
            return 2;
        }
    };
    let sig = rec.outcome.signature(&rf.property);
    if !quiet {
        println!("replay {path}: recorded signature {}", rf.signature);
        println!("replay {path}: observed  signature {}", sig.clone().unwrap_or_else(|| format!("{:?}", rec.outcome.verdict)));
        if let Verdict::Violation { message, .. } = &rec.outcome.verdict {
            println!("  {message}");
        }
    }
    match sig {
        Some(s) if s == rf.signature => {
            let th = format!("{:016x}", rec.trace_hash);
            if th != rf.trace_hash && rf.repo_head == repo_head() && !rf.trace_hash.is_empty() && rec.trace_hash != 0 {
                eprintln!("harness error: same signature but trace hash diverged ({} vs {})", th, rf.trace_hash);
                return 2;
            }
            println!("VIOLATION property={} replay={}", rf.property, path);
            1
        }
        Some(other) => {
            // not the recorded violation, but a violation of the same property all the same
            println!("note: the recorded signature did not reproduce; the replay ends in {other}");
            println!("VIOLATION property={} replay={}", rf.property, path);
            1
        }
        None => 0,
    }
}

// ---------------------------------------------------------------------------------------------
// the check command

pub struct CheckOpts {
    pub prop: String,
    pub tier: String,
    pub seed: u64,
    pub runs: Option<u64>,
    pub workers: usize,
    pub max_report: usize,
}

pub fn check(opts: &CheckOpts) -> i32 {
    let started = Instant::now();
    let prop = opts.prop.as_str();
    let Some(info) = props::info(prop) else {
        eprintln!("harness error: unknown property {prop}");
        return 2;
    };
    let thorough = opts.tier == "thorough";
    let runs = opts.runs.unwrap_or(if thorough { info.thorough_runs } else { info.quick_runs });
    let findings: Vec<Finding> = load_findings().into_iter().filter(|f| f.property == prop).collect();
    let known_hazards: Vec<String> = {
        let mut v: Vec<String> = findings.iter().filter(|f| f.status == "known").map(|f| f.hazard.clone()).collect();
        v.sort();
        v.dedup();
        v
    };
    let mut exit = 0;
    let mut violations_reported = 0u64;
    let mut known_lines: Vec<String> = Vec::new();

    // 1. directed probes
    let mut probe_results = Vec::new();
    for f in &findings {
        let Some(rp) = &f.replay else { continue };
        let path = format!("{VERIF_DIR}/{rp}");
        let Ok(s) = std::fs::read_to_string(&path) else {
            eprintln!("harness error: finding {} names a missing replay file {path}", f.id);
            return 2;
        };
        let rf: ReplayFile = match serde_json::from_str(&s) {
            Ok(r) => r,
            Err(e) => {
                eprintln!("harness error: cannot parse {path}: {e}");
                return 2;
            }
        };
        let cfg: RunCfg = (&rf.cfg).into();
        let rec = match run_isolated_record(prop, &rf.direct_src(), &cfg, false) {
            Ok(r) => r,
            Err(e) => {
                eprintln!("harness error: probe child failed: {e}");
                return 2;
            }
        };
        let sig = rec.outcome.signature(prop);
        let reproduces = sig.as_ref().map(|s| f.signatures.iter().any(|p| sig_matches(p, s))).unwrap_or(false);
        // a probe that ends in ANOTHER violation is a violation too, unless an open finding lists it
        let listed_open = sig.as_ref().map(|s| findings.iter().any(|g| g.status == "known" && g.signatures.iter().any(|p| sig_matches(p, s)))).unwrap_or(false);
        probe_results.push(json!({"finding": f.id, "status": f.status, "reproduces": reproduces, "observed": sig}));
        match (f.status.as_str(), reproduces) {
            ("known", true) => known_lines.push(format!("KNOWN-FINDING: property={} {} {}", prop, f.id, f.what)),
            ("fixed", true) => {
                println!("fixed finding {} is back: {}", f.id, f.what);
                println!("VIOLATION property={} replay={}", prop, path);
                violations_reported += 1;
                exit = 1;
            }
            (st, false) => {
                if st == "known" {
                    println!("note: known finding {} no longer reproduces from its replay file (observed: {:?})", f.id, sig);
                }
                if let (Some(s), false) = (&sig, listed_open) {
                    println!("violation: {s}  (directed probe {} ends in a violation its finding does not list)", f.id);
                    println!("  {}", rec.outcome.detail().chars().take(1200).collect::<String>());
                    println!("VIOLATION property={} replay={}", prop, path);
                    violations_reported += 1;
                    exit = 1;
                }
            }
            _ => {}
        }
    }
    for l in &known_lines {
        println!("{l}");
    }

    // 1b. sensitivity corpus: minimised scenarios + schedules that told a property-breaking change from the tree
    // (collected by tools/collect_corpus.sh); every one is re-executed on every run and must hold
    let mut corpus_results = Vec::new();
    {
        let dir = format!("{VERIF_DIR}/corpus/{prop}");
        let mut files: Vec<String> = std::fs::read_dir(&dir).map(|rd| rd.filter_map(|e| e.ok()).map(|e| e.path().to_string_lossy().to_string()).filter(|p| p.ends_with(".json")).collect()).unwrap_or_default();
        files.sort();
        for path in files {
            let rf: ReplayFile = match std::fs::read_to_string(&path).map_err(|e| e.to_string()).and_then(|s| serde_json::from_str(&s).map_err(|e| e.to_string())) {
                Ok(r) => r,
                Err(e) => {
                    eprintln!("harness error: cannot read corpus file {path}: {e}");
                    return 2;
                }
            };
            let cfg: RunCfg = (&rf.cfg).into();
            let rec = match run_isolated_record(prop, &rf.direct_src(), &cfg, false) {
                Ok(r) => r,
                Err(e) => {
                    eprintln!("harness error: corpus child failed: {e}");
                    return 2;
                }
            };
            let sig = rec.outcome.signature(prop);
            let listed_open = sig.as_ref().map(|s| findings.iter().any(|g| g.status == "known" && g.signatures.iter().any(|p| sig_matches(p, s)))).unwrap_or(false);
            corpus_results.push(json!({"file": path.rsplit('/').next().unwrap_or(""), "observed": sig}));
            if let (Some(s), false) = (&sig, listed_open) {
                println!("violation: {s}  (corpus scenario)");
                println!("  {}", rec.outcome.detail().chars().take(1200).collect::<String>());
                println!("VIOLATION property={} replay={}", prop, path);
                violations_reported += 1;
                exit = 1;
            }
        }
    }

    // 2. main + hazard pass
    let agg = batch(prop, opts.seed, runs, opts.workers, &findings, &known_hazards, thorough);
    if !agg.harness_errors.is_empty() {
        for e in agg.harness_errors.iter().take(5) {
            eprintln!("harness error: {e}");
        }
        return 2;
    }

    // 3. new violations: shrink, confirm, report
    let mut reported = Vec::new();
    let mut sigs: Vec<(&String, &(u64, u64, Option<String>))> = agg.new_violations.iter().collect();
    sigs.sort_by_key(|(_, v)| v.1);
    for (sig, (count, first_run, _enter)) in sigs.iter().take(opts.max_report) {
        let cfg = cfg_for_run(*first_run, &known_hazards, thorough);
        let src = TapeSrc::Seed { seed: opts.seed, run: *first_run };
        let rec0 = match run_isolated_record(prop, &src, &cfg, true) {
            Ok(r) => r,
            Err(e) => {
                eprintln!("harness error: confirm run failed: {e}");
                return 2;
            }
        };
        if rec0.outcome.signature(prop).as_deref() != Some(sig.as_str()) {
            eprintln!("harness error: run {first_run} did not reproduce signature {sig} when re-executed (got {:?}); nondeterminism in the harness", rec0.outcome.signature(prop));
            return 2;
        }
        let original_len = rec0.tape.len();
        let (rec, tries) = if rec0.tape.is_empty() {
            (rec0, 0)
        } else {
            let (small, tries) = shrink(prop, rec0.tape.clone(), &cfg, sig, 3000);
            match run_isolated_record(prop, &TapeSrc::Tape(small), &cfg, true) {
                Ok(r) if r.outcome.signature(prop).as_deref() == Some(sig.as_str()) => (r, tries),
                _ => (rec0, tries),
            }
        };
        let rf = make_replay(prop, opts.seed, *first_run, &opts.tier, &cfg, original_len, &rec);
        let dir = format!("{VERIF_DIR}/replays");
        let _ = std::fs::create_dir_all(&dir);
        let path = format!("{dir}/{prop}-{}-{}.json", opts.seed, first_run);
        std::fs::write(&path, serde_json::to_vec_pretty(&rf).unwrap()).expect("write replay");
        // confirm in a fresh process
        let st = std::process::Command::new(std::env::current_exe().unwrap()).args(["replay", &path, "--quiet"]).stdout(std::process::Stdio::null()).status();
        match st.map(|s| s.code()) {
            Ok(Some(1)) => {
                println!("violation: {sig}  (seen in {count} run(s), first run {first_run}, tape {} -> {} values after {tries} shrink executions)", original_len, rf.tape.len());
                if let Verdict::Violation { message, .. } = &rec.outcome.verdict {
                    println!("  {message}");
                }
                println!("VIOLATION property={} replay={}", prop, path);
                violations_reported += 1;
                exit = 1;
                reported.push(json!({"signature": sig, "runs": count, "first_run": first_run, "replay": path}));
            }
            other => {
                eprintln!("harness error: minimised tape did not reproduce in a fresh process ({other:?}) for {sig}");
                return 2;
            }
        }
    }

    // 4. evidence
    let wall = started.elapsed().as_secs_f64();
    let distinct = agg.nontrivial_hashes.len() as u64;
    let faults: BTreeMap<String, u64> = agg.counters.iter().filter(|(k, _)| k.starts_with("fault.")).map(|(k, v)| (k.clone(), *v)).collect();
    let mut probes = agg.probes.clone();
    for (k, v) in agg.counters.iter().filter(|(k, _)| !k.starts_with("fault.")) {
        probes.insert(k.clone(), *v);
    }
    for p in info.expected_probes {
        probes.entry(p.to_string()).or_insert(0);
    }
    let zero_probes: Vec<&String> = probes.iter().filter(|(_, v)| **v == 0).map(|(k, _)| k).collect();
    for z in &zero_probes {
        println!("warning: probe `{z}` was never hit in this batch");
    }
    let evidence = json!({
        "property_id": prop,
        "tier": opts.tier,
        "seed": opts.seed,
        "level": "exploration",
        "wall_s": wall,
        "violations": violations_reported,
        "coverage": {
            "evaluations": agg.runs,
            "distinct_nontrivial": distinct,
            "rule": info.rule,
            "samples": agg.samples.iter().take(4).collect::<Vec<_>>(),
            "verdicts": {"ok": agg.ok, "discarded": agg.discard, "inconclusive": agg.inconclusive, "known_finding_hits": agg.known_hits, "new_violation_signatures": agg.new_violations.len()},
            "inconclusive_reasons": agg.inconclusive_reasons,
            "faults_fired": faults,
            "probes": probes,
            "schedules_distinct": agg.sched_hashes.len(),
            "schedule_measure": "distinct hashes of the sequence of (task kind | event) scheduling decisions of a run",
            "states": agg.states.len(),
            "state_measure": info.state_measure,
            "state_items": agg.states.iter().take(300).collect::<Vec<_>>(),
            "sim_seconds": (agg.sim_ns / 1_000_000_000) as u64,
            "executor_steps": agg.steps,
            "runs_per_s": if wall > 0.0 { agg.runs as f64 / wall } else { 0.0 },
            "seeds_per_hour": if wall > 0.0 { agg.runs as f64 / wall * 3600.0 } else { 0.0 },
            "hazard_pass_runs": agg.hazard_runs,
            "hazard_redraws": agg.redraws,
            "directed_probes": probe_results,
            "corpus_probes": corpus_results,
            "reported": reported,
            "workers": opts.workers,
            "components": {
                "real": ["Ohkami::howl + accept loop", "CtrlC/WaitGroup and the Ctrl-C closure", "Session::manage + timeout_in", "__rt__ glue", "Request::{init,clear,read,read_payload}", "router (base+final)", "fangs + built-in fangs", "handler glue (IntoHandler/FromRequest/FromParam)", "Response::{complete,send} + headers", "SSE DataStream/QueueStream", "Dir on the real file system", "ohkami_lib"],
                "simulated": ["tokio crate (TcpListener/TcpStream/AsyncRead*/AsyncWrite*/sleep/spawn -> simcore executor, network, clock)", "ctrlc crate (handler closure runs on a hand-off thread)", "wall clock behind util::unix_timestamp (hook K1)"],
                "harness": ["HTTP clients and independent response parser", "user handlers and fangs", "reference models/oracles"]
            }
        },
        "assumptions": info.assumptions,
    });
    if std::env::var_os("VERIF_NO_EVIDENCE").is_none() {
        // (mutation experiments set VERIF_NO_EVIDENCE so that committed evidence always comes from the real tree)
        let dir = format!("{VERIF_DIR}/evidence");
        let _ = std::fs::create_dir_all(&dir);
        std::fs::write(format!("{dir}/{prop}.json"), serde_json::to_vec_pretty(&evidence).unwrap()).expect("write evidence");
    }

    println!(
        "{prop} {}: {} runs in {:.1}s ({:.0}/s), {} distinct non-trivial scenarios, {} distinct schedules, ok={} discarded={} inconclusive={} known-hits={:?} new-violation-signatures={}",
        opts.tier,
        agg.runs,
        wall,
        agg.runs as f64 / wall.max(0.001),
        distinct,
        agg.sched_hashes.len(),
        agg.ok,
        agg.discard,
        agg.inconclusive,
        agg.known_hits,
        agg.new_violations.len()
    );
    if agg.new_violations.len() > opts.max_report {
        println!("({} further violation signatures not minimised in this run)", agg.new_violations.len() - opts.max_report);
        for (s, (c, r, _)) in agg.new_violations.iter() {
            println!("  signature {s}: {c} run(s), first {r}");
        }
    }
    exit
}

/// determinism batch: every seed twice, in different processes, with different worker counts
pub fn determinism(props_list: &[String], seeds: u64, seed: u64) -> i32 {
    let mut bad = 0;
    for prop in props_list {
        let findings: Vec<Finding> = load_findings().into_iter().filter(|f| &f.property == prop).collect();
        let known_hazards: Vec<String> = {
            let mut v: Vec<String> = findings.iter().filter(|f| f.status == "known").map(|f| f.hazard.clone()).collect();
            v.sort();
            v.dedup();
            v
        };
        let a = determinism_pass(prop, seed, seeds, 1.max(3), &known_hazards);
        let b = determinism_pass(prop, seed, seeds, 16, &known_hazards);
        let mut diffs = 0;
        for (i, (x, y)) in a.iter().zip(b.iter()).enumerate() {
            if x != y {
                if diffs < 5 {
                    println!("determinism: {prop} run {i} differs: {x:?} vs {y:?}");
                }
                diffs += 1;
            }
        }
        println!("determinism: {prop}: {} runs executed twice (3 and 16 workers), {} differences", a.len(), diffs);
        bad += diffs;
    }
    if bad > 0 {
        2
    } else {
        0
    }
}

fn determinism_pass(prop: &str, seed: u64, runs: u64, workers: usize, known_hazards: &[String]) -> Vec<(u64, u64, String)> {
    // each worker returns (run, trace_hash, sched_hash, verdict) lines
    let mut children: Vec<(i32, i32)> = Vec::new();
    unsafe {
        for j in 0..workers {
            let mut fds = [0i32; 2];
            assert_eq!(libc::pipe(fds.as_mut_ptr()), 0);
            let pid = libc::fork();
            if pid == 0 {
                libc::close(fds[0]);
                let mut out = Vec::new();
                let mut i = j as u64;
                while i < runs {
                    let cfg = cfg_for_run(i, known_hazards, false);
                    let line = match run_isolated_record(prop, &TapeSrc::Seed { seed, run: i }, &cfg, false) {
                        Ok(r) => (i, r.trace_hash, r.sched_hash, format!("{:?}|{}", r.outcome.signature(prop), serde_json::to_string(&r.outcome.verdict).unwrap_or_default())),
                        Err(e) => (i, 0, 0, format!("ERR {e}")),
                    };
                    out.push(line);
                    i += workers as u64;
                }
                let bytes = serde_json::to_vec(&out).unwrap();
                let mut f = std::fs::File::from_raw_fd(fds[1]);
                let _ = f.write_all(&bytes);
                drop(f);
                libc::_exit(0);
            }
            libc::close(fds[1]);
            children.push((pid, fds[0]));
        }
    }
    let handles: Vec<_> = children
        .iter()
        .map(|(pid, fd)| {
            let (pid, fd) = (*pid, *fd);
            std::thread::spawn(move || {
                let mut f = unsafe { std::fs::File::from_raw_fd(fd) };
                let mut buf = Vec::new();
                let _ = f.read_to_end(&mut buf);
                let mut status = 0i32;
                unsafe { libc::waitpid(pid, &mut status, 0) };
                buf
            })
        })
        .collect();
    let mut all: Vec<(u64, u64, u64, String)> = Vec::new();
    for h in handles {
        let buf = h.join().unwrap();
        let v: Vec<(u64, u64, u64, String)> = serde_json::from_slice(&buf).unwrap_or_default();
        all.extend(v);
    }
    all.sort_by_key(|x| x.0);
    all.into_iter().map(|(_, a, b, c)| (a, b, c)).collect()
}
