mod appgen;
mod client;
mod driver;
mod dump;
mod props;
mod reqmodel;
mod rt;
mod sess;

fn arg_val(args: &[String], name: &str) -> Option<String> {
    args.iter().position(|a| a == name).and_then(|i| args.get(i + 1).cloned())
}

fn main() {
    simcore::install_panic_hook();
    let args: Vec<String> = std::env::args().skip(1).collect();
    let seed: u64 = arg_val(&args, "--seed").or_else(|| std::env::var("VERIF_SEED").ok()).and_then(|s| s.parse().ok()).unwrap_or(1);
    let workers: usize = arg_val(&args, "--workers").and_then(|s| s.parse().ok()).unwrap_or_else(|| std::thread::available_parallelism().map(|n| n.get()).unwrap_or(4).min(16));
    let code = match args.first().map(|s| s.as_str()) {
        Some("check") => {
            let prop = args.get(1).cloned().unwrap_or_default();
            let tier = std::env::var("VERIF_TIER").ok().filter(|t| t == "quick" || t == "thorough").or_else(|| args.get(2).cloned()).unwrap_or_else(|| "quick".into());
            let tier = if tier == "thorough" { "thorough".to_string() } else { "quick".to_string() };
            let runs = arg_val(&args, "--runs").and_then(|s| s.parse().ok());
            let max_report = arg_val(&args, "--max-report").and_then(|s| s.parse().ok()).unwrap_or(4);
            driver::check(&driver::CheckOpts { prop, tier, seed, runs, workers, max_report })
        }
        Some("replay") => {
            let path = args.get(1).cloned().unwrap_or_default();
            driver::replay_file(&path, args.iter().any(|a| a == "--quiet"))
        }
        Some("determinism") => {
            let n = arg_val(&args, "--seeds").and_then(|s| s.parse().ok()).unwrap_or(2000);
            let list: Vec<String> = match arg_val(&args, "--props") {
                Some(p) => p.split(',').map(|s| s.to_string()).collect(),
                None => props::ALL.iter().map(|s| s.to_string()).collect(),
            };
            driver::determinism(&list, n, seed)
        }
        Some("selftest-dump") => {
            // reference models rendered for fixed inputs; tools/selftest.py compares them with Python's standard library
            let instants: Vec<u64> = vec![0, 1, 59, 86_399, 86_400, 951_782_400, 951_868_800, 1_700_000_000, 2_147_483_647, 4_102_444_800, 13_569_465_600, 253_402_300_799, 253_370_764_800, 68_256, 1_078_099_200, 4_107_542_400];
            let dates: Vec<(u64, String)> = instants.iter().map(|t| (*t, props::c03::imf_fixdate(*t))).collect();
            let mut macs = Vec::new();
            for alg in [256u16, 384, 512] {
                for key in ["", "k", "secret", &"k".repeat(64), &"k".repeat(65), &"k".repeat(129), &"k".repeat(200)] {
                    for msg in ["", "a.b", "eyJhbGciOiJIUzI1NiJ9.e30"] {
                        macs.push((alg, key.to_string(), msg.to_string(), client::hex(&props::c12::hmac(alg, key.as_bytes(), msg.as_bytes()))));
                    }
                }
            }
            println!("{}", serde_json::json!({"dates": dates, "hmac": macs}));
            0
        }
        Some("one") => {
            // debugging aid: run one seed-mode run in-process and print the record
            let prop = args.get(1).cloned().unwrap_or_default();
            let run: u64 = args.get(2).and_then(|s| s.parse().ok()).unwrap_or(0);
            let findings: Vec<driver::Finding> = driver::load_findings().into_iter().filter(|f| f.property == prop).collect();
            let mut hz: Vec<String> = findings.iter().filter(|f| f.status == "known").map(|f| f.hazard.clone()).collect();
            hz.sort();
            hz.dedup();
            let mut cfg = driver::cfg_for_run(run, &hz, false);
            if let Some(e) = arg_val(&args, "--enter") {
                cfg.enter = Some(e);
            }
            if args.iter().any(|a| a == "--noguard") {
                cfg.guarded.clear();
            }
            let rec = driver::run_here(&prop, &driver::TapeSrc::Seed { seed, run }, &cfg, args.iter().any(|a| a == "--trace"));
            println!("{}", serde_json::to_string_pretty(&rec).unwrap());
            0
        }
        _ => {
            eprintln!("usage: ohkami-sim check <PROP> [quick|thorough] [--seed N] [--runs N] [--workers W]\n       ohkami-sim replay <file> [--quiet]\n       ohkami-sim determinism [--seeds N] [--props C02,C06]\n       ohkami-sim one <PROP> <run> [--trace]");
            2
        }
    };
    std::process::exit(code);
}
